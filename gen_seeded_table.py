#!/usr/bin/env python3
"""Prints the markdown table of kept seeded changes (DESIGN.md section 8) from seeded/*/meta.json
and seeded/last_run.tsv (written by run_seeded.sh)."""
import json, glob, os
here = os.path.dirname(os.path.abspath(__file__))
last = {}
lp = os.path.join(here, "seeded", "last_run.tsv")
if os.path.exists(lp):
    for l in open(lp):
        f = l.rstrip("\n").split("\t")
        if len(f) >= 4:
            last[f[0]] = (f[2], f[3].strip())
print("| seeded change | property | what it needs to manifest | caught by (quick tier) | caught before strengthening? |")
print("|---|---|---|---|---|")
for d in sorted(glob.glob(os.path.join(here, "seeded", "*"))):
    name = os.path.basename(d)
    mp = os.path.join(d, "meta.json")
    if name.startswith("_") or not os.path.exists(mp):
        continue
    m = json.load(open(mp))
    first = m.get("caught_initially")
    if first is None:
        first_s = "n/a (hand-written)"
    elif first:
        first_s = "yes"
    else:
        first_s = "no - " + m.get("strengthening", "")
    caught = m.get("caught_by")
    if not caught:
        res, kinds = last.get(name, ("?", ""))
        caught = "./check %s quick: %s" % (m["property"], kinds) if res == "yes" else "see run_seeded.sh"
    print("| `%s` | %s | %s | %s | %s |" % (name, m["property"], m.get("needs", ""), caught, first_s))
