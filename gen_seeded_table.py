#!/usr/bin/env python3
"""Prints the markdown table of kept seeded changes (DESIGN.md section 8) from seeded/*/meta.json."""
import json, glob, os
rows = []
for d in sorted(glob.glob(os.path.join(os.path.dirname(os.path.abspath(__file__)), "seeded", "*"))):
    mp = os.path.join(d, "meta.json")
    if not os.path.exists(mp):
        continue
    m = json.load(open(mp))
    rows.append((os.path.basename(d), m))
print("| seeded change | property | what it needs to manifest | caught by (quick tier) | caught before strengthening? |")
print("|---|---|---|---|---|")
for name, m in rows:
    first = m.get("caught_initially")
    first_s = "yes" if first else ("no - " + m.get("strengthening", "")) if first is not None else "n/a (hand-written)"
    print(f"| `{name}` | {m['property']} | {m.get('needs','')} | {m.get('caught_by','see run_seeded.sh')} | {first_s} |")
