#!/usr/bin/env python3
"""Prints the markdown table of kept seeded changes (DESIGN.md section 8) from seeded/*/meta.json."""
import json, glob, os
rows = []
last = {}
lp = os.path.join(os.path.dirname(os.path.abspath(__file__)), "seeded", "last_run.tsv")
if os.path.exists(lp):
    for l in open(lp):
        f = l.rstrip("\n").split("\t")
        if len(f) >= 4:
            last[f[0]] = (f[2], f[3])
for d in sorted([d for d in glob.glob(os.path.join(os.path.dirname(os.path.abspath(__file__)), "seeded", "*")) if not os.path.basename(d).startswith("_")]):
    mp = os.path.join(d, "meta.json")
    if not os.path.exists(mp):
        continue
    m = json.load(open(mp))
    rows.append((os.path.basename(d), m))
print("| seeded change | property | what it needs to manifest | caught by (quick tier) | caught before strengthening? |")
print("|---|---|---|---|---|")
for name, m in rows:
    first = m.get("caught_initially")
    first_s = "yes" if first else ("no - " + m.get("strengthening", "")) if first is not None else "n/a (hand-written)"
    print(f"| `{name}` | {m['property']} | {m.get('needs','')} | {m.get('caught_by', ("./check %s quick: %s" % (m['property'], last.get(name, ("?", ""))[1].strip())) if last.get(name, ("",))[0] == "yes" else "see run_seeded.sh")} | {first_s} |")
