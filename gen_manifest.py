#!/usr/bin/env python3
"""Regenerates MANIFEST.json from the table below (kept next to the checks it describes)."""
import json, sys

CHECKS = {
 # id: (engine, category, technique, text, note, design_ref)
 "C01": ("svcx", "model_checking",
         "explicit-state BFS over event schedules of the real Bulkhead under a controlled scheduler and virtual clock",
         "Every schedule of arrivals, polls, drops, inner completions (ok/err/panic) and timer firings of 3-4 callers on clones of one real Bulkhead, within the stated depth/tick/drop bounds, is executed; after every action the number of live inner calls is compared with max_concurrent_calls, and every distinct state is additionally drained and probed with max+1 fresh callers.",
         "Prompt-executor rule; interleaving granularity is one Future::poll (the shared state is a tokio semaphore); bounds: max in {1,2}, max_wait in {none,0,20ms,25ms}.",
         "4 C01"),
 "C07": ("svcx", "model_checking",
         "explicit-state BFS over event schedules of the real Bulkhead + drain-and-probe epilogue from every state",
         "Same exploration as C01 with the capacity/liveness oracles: immediate admission when a slot is free and nobody queued, rejection exactly max_wait after first poll and only with the timeout error, rejected/cancelled requests never reach the inner service, and from every reachable state a drain followed by a probe burst must find full capacity again.",
         "As C01. 'Arrival' is the first poll of the call future (timeout starts there); time between call() and first poll is excluded by the prompt-executor rule.",
         "4 C07"),
 "C02": ("svcx", "model_checking",
         "explicit-state BFS over event schedules of the real RateLimiter under a controlled scheduler and virtual clock",
         "Every schedule of arrivals (on every 10 ms grid instant incl. exact window boundaries), polls, drops and timer firings of limit+2..limit+3 callers on clones of one real RateLimiter is executed for all three window types; in every state the list of admission instants must admit a cut into windows >= refresh_period with <= limit admissions each (exact memoised search, independent of the implementation's notion of window) or, for the sliding log, have limit+1 consecutive admissions spanning >= refresh_period.",
         "Prompt-executor rule; inner resolves at once (admission instant = inner call instant); period 40 ms, limit in {1,2}, timeout in {0,10,40,60,100} ms.",
         "4 C02"),
 "C15": ("svcx", "model_checking",
         "explicit-state BFS over event schedules of the real RateLimiter + idle-burst probe from every state",
         "Same exploration as C02 with the decision oracles: every caller is decided within timeout_duration of its first poll; a caller arriving while fewer than limit admissions lie in the look-back window is admitted in that poll; rejected and cancelled callers never reach the inner service, admitted ones exactly once; from every state, after draining and two idle periods, a burst of limit callers is admitted at once.",
         "As C02. 'Spare capacity' is judged by the implementation-independent sufficient condition (fewer than limit admissions in the last period; last two periods for the sliding counter).",
         "4 C15"),
 "C03": ("svcx", "model_checking",
         "explicit-state BFS over event schedules of the real CircuitBreaker (with and without fallback) under a controlled scheduler and virtual clock",
         "Every schedule of arrivals on clones, polls, drops, gated inner completions (ok/err, fast/slow), timer ticks and force_open of 3-4 callers is executed; before every action the lock-free state and the transition log are sampled; an action that begins with the breaker observed open less than wait_duration_in_open ago must start no inner call, and a not-yet-admitted caller polled then must resolve in that poll with the open-circuit error or the fallback value; all clones show one state.",
         "Prompt executor; granularity one Future::poll; count- and time-based windows of size 1-2, wait 30 ms.",
         "4 C03"),
 "C04": ("seq", "model_checking",
         "explicit-state BFS over operation histories of the real CircuitBreaker in lock-step with a set-valued reference model of the documented machine",
         "All sequential histories up to the stated depth over {success, failure, slow success, slow failure, non-failure error, waits below/at the open wait and beyond the window, force_open, force_closed, reset} for a grid of 96 (quick) / 648+ (thorough) configurations run on the real breaker; after every operation state(), state_sync(), metrics().state and is_open() must agree with each other and with the reference machine, and whether the inner service was invoked must equal the machine's admission decision.",
         "Points the documentation leaves open are set-valued (one fixed choice per history). Dedup on (model candidates, metrics snapshot); cross-checked without dedup at a smaller depth in the thorough tier.",
         "4 C04"),
 "C09": ("svcx", "model_checking",
         "explicit-state BFS over event schedules of the real CircuitBreaker from a half-open-ready state",
         "Every schedule of 3-4 callers arriving on clones while the breaker is (about to be) half-open, with gated trial calls completing ok/err in every order, is executed; for every half-open period in the transition log the inner calls started (not cancelled) must be <= permitted_calls_in_half_open and later arrivals must be rejected at once; from every state the breaker must still be able to admit a call within three wait periods.",
         "Prompt executor; granularity one Future::poll; cancelled trial calls give their slot back (cancellation is outside C09's quantifier and is only used for the not-stranded probe).",
         "4 C09"),
 "C05": ("seq+svcx", "model_checking",
         "exhaustive grid of outcome scripts x configurations on the real Retry service, plus explicit-state BFS over schedules of several requests sharing one budget",
         "Every outcome script over {ok, retryable error, non-retryable error} of length max(1,max_attempts)+1 is run through the real retry layer for max_attempts 0..4 (fixed and per request), four backoff policies, with/without predicate and five budgets; the inner-call log (instants, identities) must satisfy: 1..max(1,max) attempts, nothing after a success or a refused error, result identical to the last inner outcome, gap before retry k >= its backoff, retries <= budget grants. 2-3 requests sharing one budget are explored over all poll/completion/timer schedules with the same oracles in every state.",
         "The budget is observed through a recording wrapper implementing the public RetryBudget trait; the property's stopping conditions are checked as stated (the check does not demand that a retry happens when it may).",
         "4 C05"),
 "C08": ("ilv", "model_checking",
         "preemption-bounded DFS over atomic-step interleavings of real threads (stateless, CHESS-style) with brute-force linearizability against the real structure",
         "For token-bucket and AIMD budgets and 7 thread programs of try_withdraw/deposit, every interleaving of the instrumented atomic operations up to 2 preemptions (thorough: unbounded, plus one spurious compare_exchange_weak failure) is executed on real threads; at every scheduling point balance <= max, at quiescence grants*cost + balance <= start + deposits*amount, and (returns, balance, ceiling) must equal some one-at-a-time execution of the same operations on the real structure.",
         "Sequentially consistent memory; scheduling points are the instrumented atomics (feature verif-hooks). Known finding: AimdBudget's ceiling/token components are separately atomic (recorded, not repaired).",
         "4 C08"),
 "C14": ("seq", "exploration",
         "exhaustive evaluation of a finite input grid against a closed-form reference, plus end-to-end dead-backend loops under virtual time",
         "Every point of attempts (0..2000/10000 dense, 2^k and 2^k+-1 for k<=63, i32/u32/usize limits) x 7 initial intervals x 5 multipliers x 7 max_interval settings x 4 randomization factors is evaluated under catch_unwind for ExponentialBackoff, ExponentialRandomBackoff (16 draws per point) and every ReconnectPolicy constructor: no panic, non-decreasing in the attempt, equal to initial*multiplier^attempt below the cap and equal to the cap beyond it, jitter within the factor; the default reconnect layer and retry layers run 2-6 virtual hours (200 virtual years uncapped) against an always-failing backend.",
         "Jitter draws come from the thread RNG (bounds checked on every draw, draws not enumerated).",
         "4 C14"),
 "C06": ("svcx", "model_checking",
         "explicit-state BFS over event schedules of the real TimeLimiter under a controlled scheduler and virtual clock",
         "Every schedule of two callers (fixed and per-request deadlines of 20/30 ms), gated inner completions (ok/err) before, at and after the deadline or never, drops and timer firings is executed in both cancellation modes and under several select! seeds; every caller must be resolved by first-poll + timeout: with exactly its inner call's result at the instant the result became available if that is before the deadline, with the timeout error at the deadline otherwise; on timeout the inner call is dropped in that same poll (cancel mode) or keeps running and completes (background mode, also after the caller was dropped).",
         "Prompt executor; deadline starts at the first poll; unbiased select! fixed per execution via rng_seed and explored under 2-4 seeds (both tie resolutions are required witnesses); a completion exactly at the deadline may go either way.",
         "4 C06"),
 "C10": ("seq+svcx", "model_checking",
         "explicit-state BFS over operation histories of the real Cache in lock-step with a set-valued reference cache, plus BFS over schedules of concurrent misses",
         "All histories up to the stated depth over {get key A/B/C via either of two service handles on one store with inner ok/err, wait 10 ms} for LRU/LFU/FIFO x max_size 1-2 x TTL none/20/50 ms x private/shared store run on the real cache; every call must be a hit or a miss exactly as the reference allows: a hit returns the serial most recently stored for that key, never another key's or an expired one, makes no inner call; a miss makes exactly one; errors are never stored; evicted keys (policy victim) miss. Concurrent gated misses on one key are explored over all poll/completion orders.",
         "Set-valued points: LFU ties, lookups at exactly the TTL, eviction of an already expired entry instead of the policy victim.",
         "4 C10"),
 "C11": ("svcx", "model_checking",
         "explicit-state BFS over event schedules of the real CoalesceService under a controlled scheduler",
         "Every schedule of 3-4 callers over keys {A,B} on clones of one real CoalesceService - arrivals, polls, drops of leaders and waiters at every point, gated inner completions ok/err/panic - is executed; in every state at most one inner call per key is in flight, a request joining a live call makes none of its own and resolves (in the first poll after the leader's outcome is published) with a clone of exactly that call's result or with LeaderCancelled if the leader was dropped or panicked, a request arriving when no call for its key is in flight starts one at once; from every state, two polls after all gates open every caller has resolved and a fresh request per key starts a fresh call.",
         "Granularity one Future::poll (shared state: parking_lot mutex + broadcast channel).",
         "4 C11"),
 "C12": ("svcx", "model_checking",
         "explicit-state BFS over event schedules of one hedged call on the real Hedge service with gated attempts under virtual time",
         "For max_hedged_attempts 1-3 and fixed / immediate / per-attempt (incl. zero entries) delays every order of attempt completions (ok/err) relative to the hedge start instants (before / at / after) is executed; in every state: attempts started <= max, attempt k starts >= delay(k) after attempt k-1 (all at the first poll in parallel mode), a success wakes the caller at that instant and the next poll returns the first successful attempt's payload, all-attempts-failed only when max attempts were started and all failed, never Pending after that; from every state a drain in which every remaining attempt fails must end in all-attempts-failed.",
         "Prompt executor; attempt tasks are tokio-spawned and run FIFO whenever the explorer yields; their relative order is explored through the gates.",
         "4 C12"),
 "C13": ("ilv+seq+svcx", "model_checking",
         "preemption-bounded DFS over atomic-step interleavings (limit), exhaustive feedback sequences (limit), explicit-state BFS over event schedules of the real AdaptiveService (in-flight / readiness)",
         "Limit: every interleaving (<= 2 preemptions; thorough unbounded + a spurious CAS failure) of 2-3 threads feeding fast/slow/failed feedback into AimdController, Aimd and Vegas for three (min,initial,max) triples and decrease factors 0/0.5/1, with min <= limit <= max checked after every atomic step, plus every feedback sequence up to length 6-8 after three warm-ups. Service: every schedule of readiness checks, calls, polls, drops, gated completions (ok/err/panic) and ticks of 3-4 callers on clones; in every state in_flight() equals the harness's own count of live inner calls, poll_ready is Ready iff live < limit(), and after a drain in_flight() is 0 and readiness is granted.",
         "Sequentially consistent memory for the interleaving part; prompt executor and poll granularity for the service part.",
         "4 C13"),
 "C16": ("seq", "exploration",
         "exhaustive enumeration of fault sequences x configurations on the real ReconnectService, each run stepped event by event under virtual time",
         "Every inner-outcome script over {ok, connection error, other error} of length max_attempts+2 is run for max_attempts {0,1,2,3,unlimited} x 5 policies x retry_on_reconnect x predicate; the inner call log must show <= max_attempts+1 calls, retries only after errors the predicate classifies as connection failures, each retry no earlier than the policy's delay, the first success or an error whose source chain carries the last inner error returned, and the published connection state Connected after a success and not Connected during every sleep and at every retry's start.",
         "Delay numbering left open by the documentation (attempt index k-1 or k accepted); jitter lower bound checked per draw.",
         "4 C16"),
 "C17": ("seq", "exploration",
         "exhaustive evaluation of a finite grid against a pure reference function",
         "7 strategies x 4 predicates x all 27 sequences of three inner outcomes over {ok, error kind 0, error kind 1}, issued on one service and a clone with distinguishable requests; outer result (payload identity and variant), inner call log (exactly once, same request), value-function call count and backup-service call log must equal the reference function's.",
         "None beyond the harness's instrumented inner service.",
         "4 C17"),
 "C18": ("seq", "model_checking",
         "explicit-state BFS over per-interval check results of the real HealthCheckWrapper in lock-step with a reference model, plus a full selection grid",
         "All sequences up to depth 9-12 of check results {healthy, unhealthy, degraded, unknown, slower than the timeout} for (failure, success) thresholds in {1,2,3}^2 drive the real background checker under virtual time; after every interval get_status and get_health_details must equal the documented rule. 3 resources are driven to every status vector in {H,D,U,K}^3 under 4 selection strategies: get_healthy / get_usable return only eligible resources, None iff none qualifies, and any n consecutive round-robin picks over a stable eligible set of size n visit each member once.",
         "Checks run in tokio-spawned tasks; results sampled half an interval after each check.",
         "4 C18"),
 "C19": ("seq", "exploration",
         "exhaustive evaluation of a finite grid, two equally seeded instances run side by side under virtual time",
         "66-258 seeds x error rate {0,0.3,1} x latency rate {0,0.5,1} x 4 latency ranges (incl. min=max and min>max) x 24 requests: equal seeds give identical decisions and latencies, an injected error never reaches the inner service, rates (0,0) are transparent, error rate 1 fails every call, injected latency lies in [min,max].",
         "Latency is measured exactly in virtual time (request start to inner call start).",
         "4 C19"),
}

NOT_YET = {}

def main():
    props = [json.loads(l) for l in open("properties.jsonl")]
    checks = []
    na = []
    for p in props:
        pid = p["id"]
        if pid in CHECKS:
            eng, cat, tech, text, note, ref = CHECKS[pid]
            checks.append({
                "property_id": pid,
                "quick_cmd": f"./check {pid} quick",
                "thorough_cmd": f"./check {pid} thorough",
                "evidence_file": f"/verif/evidence/{pid}.json",
                "replay_cmd_template": f"./check {pid} --replay {{path}}",
                "engine": eng,
                "level_claimed": {"category": cat, "text": text, "design_ref": "DESIGN.md section " + ref},
                "level_note": note,
                "technique": tech,
            })
        else:
            na.append({"property_id": pid, "reason": NOT_YET.get(pid, "check not built yet in this round (planned: see DESIGN.md section 4); not claimed until its harness exists")})
    m = {
        "version": 1,
        "setup_cmd": "cd /verif/harness && CARGO_NET_OFFLINE=true cargo build --release --offline",
        "hooks": {
            "guard": "cargo feature verif-hooks (tower-resilience-core, -retry, -adaptive)",
            "enable": "the harness crates depend on /repo/crates/* by path and enable feature verif-hooks in their Cargo.toml; no RUSTFLAGS needed for hooks",
            "baseline_off_cmd": "cd /repo && cargo nextest run --workspace --no-fail-fast --offline || cargo test --workspace --no-fail-fast --offline",
            "source_commits": [],
            "add_only": True,
        },
        "engines": [
            {"name": "svcx", "path": "harness/trv-core/src/svcx.rs", "serves_properties": [c for c in CHECKS if CHECKS[c][0]=="svcx"],
             "kind_free_text": "explicit-state BFS over external-event schedules of the real services (stateless re-execution, canonical fingerprints, virtual time via a libc clock seam)"},
            {"name": "ilv", "path": "harness/trv-core/src/ilv.rs", "serves_properties": [c for c in CHECKS if CHECKS[c][0]=="ilv"],
             "kind_free_text": "CHESS-style preemption-bounded DFS over atomic-step interleavings of real functions on real threads"},
            {"name": "seq", "path": "harness/trv-core/src/seq.rs", "serves_properties": [c for c in CHECKS if CHECKS[c][0]=="seq"],
             "kind_free_text": "bounded exhaustive operation histories / input grids against a reference model run in lock-step"},
        ],
        "checks": checks,
        "not_applicable": na,
        "notes": "All checks run the unmodified implementation from /repo's working tree (path dependencies); see DESIGN.md.",
    }
    json.dump(m, open("MANIFEST.json", "w"), indent=1)
    print(f"{len(checks)} checks, {len(na)} not claimed")

main()
