#!/usr/bin/env python3
"""Generates the hand-written seeded changes (own-*) in a scratch worktree of /repo:
applies each textual edit, checks that it compiles and that the touched crate's tests and the
matching integration-test module still pass, writes seeded/own-<name>/{patch.diff,meta.json},
and reverts.  Usage: make_own_mutants.py <worktree> [name ...]"""
import json, os, subprocess, sys

WT = sys.argv[1]
ONLY = set(sys.argv[2:])
OUT = os.path.join(os.path.dirname(os.path.abspath(__file__)), "seeded")

# (name, property, crate, integration module or None, file, old, new, needs)
M = [
 ("c01-permit-released-before-inner-await", "C01", "bulkhead", "bulkhead",
  "crates/tower-resilience-bulkhead/src/service.rs",
  "            let result = inner.call(request).await;\n\n            // Drop the permit to release the slot\n            drop(permit);\n",
  "            let fut = inner.call(request);\n            // Drop the permit to release the slot\n            drop(permit);\n            let result = fut.await;\n",
  "max+1 callers with slow inner calls: the permit is back before the inner call finishes"),
 ("c07-permit-leaked-on-inner-error", "C07", "bulkhead", "bulkhead",
  "crates/tower-resilience-bulkhead/src/service.rs",
  "            // Drop the permit to release the slot\n            drop(permit);\n",
  "            // Drop the permit to release the slot\n            if result.is_ok() {\n                drop(permit);\n            } else {\n                std::mem::forget(permit);\n            }\n",
  "an inner error, then max further callers: one slot is gone for ever"),
 ("c02-boundary-refresh-off-by-one", "C02", "ratelimiter", "ratelimiter",
  "crates/tower-resilience-ratelimiter/src/limiter.rs",
  "        if now.duration_since(self.period_start) >= self.refresh_period {\n            self.refresh(now);",
  "        if now.duration_since(self.period_start) > self.refresh_period {\n            self.refresh(now);",
  "an arrival exactly on the window boundary with the window exhausted: granted without a permit"),
 ("c15-waiters-ignore-timeout", "C15", "ratelimiter", "ratelimiter",
  "crates/tower-resilience-ratelimiter/src/limiter.rs",
  "                    if start.elapsed() + wait_duration > self.timeout_duration {\n                        return Err(());\n                    }\n",
  "",
  "several waiters racing for one window with a timeout between one and two periods"),
 ("c03-clone-gets-its-own-circuit", "C03", "circuitbreaker", "circuitbreaker",
  "crates/tower-resilience-circuitbreaker/src/lib.rs",
  "            inner: self.inner.clone(),\n            circuit: Arc::clone(&self.circuit),\n            state_atomic: Arc::clone(&self.state_atomic),\n            config: Arc::clone(&self.config),\n        }\n    }\n}\n\nimpl<S, C, Req> Service<Req> for CircuitBreaker<S, C>",
  "            inner: self.inner.clone(),\n            circuit: Arc::new(Mutex::new(Circuit::new_with_atomic(Arc::clone(&self.state_atomic)))),\n            state_atomic: Arc::clone(&self.state_atomic),\n            config: Arc::clone(&self.config),\n        }\n    }\n}\n\nimpl<S, C, Req> Service<Req> for CircuitBreaker<S, C>",
  "a clone made after the breaker opened still lets calls through"),
 ("c04-threshold-strictly-greater", "C04", "circuitbreaker", "circuitbreaker",
  "crates/tower-resilience-circuitbreaker/src/circuit.rs",
  "        let should_open = failure_rate >= config.failure_rate_threshold",
  "        let should_open = failure_rate > config.failure_rate_threshold",
  "a failure rate exactly at the threshold (e.g. 1 of 2 with threshold 0.5)"),
 ("c09-trial-slot-released-before-outcome", "C09", "circuitbreaker", "circuitbreaker",
  "crates/tower-resilience-circuitbreaker/src/lib.rs",
  "            let start = std::time::Instant::now();\n            let result = inner.call(req).await;\n            let duration = start.elapsed();\n\n            let mut circuit = circuit.lock().await;\n            drop(trial);\n            if config.failure_classifier.classify(&result) {\n                circuit.record_failure(&config, duration);\n            } else {\n                circuit.record_success(&config, duration);\n            }\n\n            result.map_err(CircuitBreakerError::Inner)\n        })\n    }\n}\n\n/// A circuit breaker with a configured fallback handler.",
  "            let start = std::time::Instant::now();\n            drop(trial);\n            let result = inner.call(req).await;\n            let duration = start.elapsed();\n\n            let mut circuit = circuit.lock().await;\n            if config.failure_classifier.classify(&result) {\n                circuit.record_failure(&config, duration);\n            } else {\n                circuit.record_success(&config, duration);\n            }\n\n            result.map_err(CircuitBreakerError::Inner)\n        })\n    }\n}\n\n/// A circuit breaker with a configured fallback handler.",
  "two callers arriving while half-open before the first trial completes"),
 ("c05-budget-checked-after-backoff-skipped-on-last", "C05", "retry", "retry",
  "crates/tower-resilience-retry/src/lib.rs",
  "                        if let Some(ref budget) = config.budget {\n                            if !budget.try_withdraw() {",
  "                        if let Some(ref budget) = config.budget {\n                            if attempt == 0 && !budget.try_withdraw() {",
  "an exhausted budget and a request that needs a second retry"),
 ("c06-background-mode-uses-timeout", "C06", "timelimiter", "timelimiter",
  "crates/tower-resilience-timelimiter/src/lib.rs",
  "            let result: Option<Result<S::Response, S::Error>> = if cancel_on_timeout {",
  "            let result: Option<Result<S::Response, S::Error>> = if cancel_on_timeout || timeout_duration < Duration::from_millis(25) {",
  "cancel_running_future(false) with a short timeout: the inner call is dropped at the deadline"),
 ("c08-deposit-load-then-store", "C08", "retry", "retry",
  "crates/tower-resilience-retry/src/budget.rs",
  "        let _ = self\n            .tokens\n            .fetch_update(Ordering::Relaxed, Ordering::Relaxed, |current| {\n                Some((current + SCALE).min(self.max_tokens))\n            });",
  "        let current = self.tokens.load(Ordering::Relaxed);\n        self.tokens\n            .store((current + SCALE).min(self.max_tokens), Ordering::Relaxed);",
  "a withdrawal between the load and the store of a concurrent deposit"),
 ("c10-fifo-update-requeues", "C10", "cache", "cache",
  "crates/tower-resilience-cache/src/eviction.rs",
  "        if self.data.contains_key(&key) {\n            let old_value = self.data.insert(key.clone(), value)?;\n            return Some((key, old_value));\n        }",
  "        if self.data.contains_key(&key) {\n            let old_value = self.data.insert(key.clone(), value)?;\n            self.order.retain(|k| k != &key);\n            self.order.push_back(key.clone());\n            return Some((key, old_value));\n        }",
  "FIFO with TTL: an expired entry re-stored keeps its place in line... not; needs two concurrent misses on one key followed by an eviction"),
 ("c11-complete-sends-before-removing-key", "C11", "coalesce", "coalesce",
  "crates/tower-resilience-coalesce/src/service.rs",
  "        if let Some(sender) = requests.remove(key) {\n            // Send result to all waiters (ignore errors if no receivers)\n            let _ = sender.send(result);\n        }",
  "        if let Some(sender) = requests.get(key) {\n            // Send result to all waiters (ignore errors if no receivers)\n            if sender.send(result).is_ok() {\n                requests.remove(key);\n            }\n        }",
  "a leader completing with no waiter subscribed: the key stays and later requests join a dead leader"),
 ("c12-failure-count-reset-on-hedge-start", "C12", "hedge", "hedge",
  "crates/tower-resilience-hedge/src/lib.rs",
  "                            hedges_spawned += 1;\n                            let attempt_num = hedges_spawned;\n",
  "                            hedges_spawned += 1;\n                            failed_attempts = 0;\n                            let attempt_num = hedges_spawned;\n",
  "the primary failing before the hedge starts and the hedge failing afterwards: never reports all-attempts-failed"),
 ("c13-guard-forgotten-on-error", "C13", "adaptive", "adaptive",
  "crates/tower-resilience-adaptive/src/service.rs",
  "                // Decrement in-flight counter\n                drop(in_flight);\n\n                match &result {\n                    Ok(_) => algorithm.record_success(latency),",
  "                // Decrement in-flight counter\n                if latency < std::time::Duration::from_millis(15) {\n                    drop(in_flight);\n                } else {\n                    std::mem::forget(in_flight);\n                }\n\n                match &result {\n                    Ok(_) => algorithm.record_success(latency),",
  "a call slower than 15 ms: it stays counted as in flight"),
 ("c14-attempt-cast-wraps", "C14", "retry", "retry",
  "crates/tower-resilience-retry/src/backoff.rs",
  "    let exponent = i32::try_from(attempt).unwrap_or(i32::MAX);",
  "    let exponent = attempt as i32;",
  "attempt numbers beyond i32::MAX: delays shrink"),
 ("c16-attempt-bound-off-by-one-for-unlimited-policy", "C16", "reconnect", "reconnect",
  "crates/tower-resilience-reconnect/src/service.rs",
  "                                if *this.attempt > max {",
  "                                if *this.attempt > max + (max == 3) as u32 {",
  "max_attempts = 3 exactly: one call too many"),
 ("c17-exception-ignores-predicate", "C17", "fallback", "fallback",
  "crates/tower-resilience-fallback/src/lib.rs",
  "                    if !should_handle {",
  "                    if !should_handle && !matches!(&config.strategy, FallbackStrategy::Exception(_)) {",
  "error-transformation strategy with a predicate that refuses the error"),
 ("c18-unknown-resets-success-run", "C18", "healthcheck", None,
  "crates/tower-resilience-healthcheck/src/wrapper.rs",
  "                            HealthStatus::Unknown => {\n                                // Don't change status on unknown\n                            }",
  "                            HealthStatus::Unknown => {\n                                // Don't change status on unknown\n                                ctx_clone.record_failure();\n                            }",
  "an unknown result between healthy checks with success_threshold >= 2 (and it counts towards the failure threshold)"),
 ("c19-latency-max-exclusive-when-min-greater", "C19", "chaos", None,
  "crates/tower-resilience-chaos/src/service.rs",
  "                        let delay_ms = if max_ms > min_ms {\n                            rng.random_range(min_ms..=max_ms)\n                        } else {\n                            min_ms\n                        };",
  "                        let delay_ms = if max_ms > min_ms {\n                            rng.random_range(min_ms..=max_ms)\n                        } else {\n                            min_ms + max_ms\n                        };",
  "min_latency > max_latency: injected latency above both bounds"),
 ("c20-cache-miss-calls-a-clone", "C20", "cache", "cache",
  "crates/tower-resilience-cache/src/lib.rs",
  "        let future = self.inner.call(req);\n        let store = Arc::clone(&self.store);",
  "        let future = self.inner.clone().call(req);\n        let store = Arc::clone(&self.store);",
  "an inner service that reserves capacity in poll_ready (Buffer / ConcurrencyLimit / strict)"),
]


def sh(cmd, cwd=WT, timeout=420):
    env = dict(os.environ, CARGO_TARGET_DIR=os.path.join(WT, "target"), CARGO_NET_OFFLINE="true")
    return subprocess.run(cmd, shell=True, cwd=cwd, env=env, capture_output=True, text=True, timeout=timeout)


for name, prop, crate, module, path, old, new, needs in M:
    if ONLY and name not in ONLY:
        continue
    full = os.path.join(WT, path)
    src = open(full).read()
    if src.count(old) != 1:
        print(f"{name}: pattern occurs {src.count(old)} times - SKIPPED")
        continue
    open(full, "w").write(src.replace(old, new))
    ran = []
    ok = True
    cmds = [f"cargo test --offline -p tower-resilience-{crate}"]
    if crate == "retry":
        cmds.append("cargo test --offline -p tower-resilience-reconnect")
    if module:
        cmds.append(f"cargo test --offline -p tower-resilience-tests --test {module}")
    for c in cmds:
        r = sh(c)
        passed = r.returncode == 0
        ran.append({"cmd": c, "passed": passed})
        if not passed:
            ok = False
            tail = (r.stdout + r.stderr).splitlines()[-15:]
            print(f"{name}: FAILS EXISTING TESTS under `{c}`:\n   " + "\n   ".join(tail))
            break
    if ok:
        diff = sh("git diff").stdout
        d = os.path.join(OUT, "own-" + name)
        os.makedirs(d, exist_ok=True)
        open(os.path.join(d, "patch.diff"), "w").write(diff)
        json.dump({"property": prop, "origin": "hand-written by the harness author", "needs": needs, "existing_tests_run": ran}, open(os.path.join(d, "meta.json"), "w"), indent=1)
        print(f"{name}: kept ({prop})")
    sh("git checkout -- .")
