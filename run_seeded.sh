#!/bin/bash
# Applies every kept seeded change (/verif/seeded/<name>/patch.diff) to /repo's working tree,
# runs the quick check of the property it breaks (meta.json: "property", optional
# "tier"), records whether the check reported a VIOLATION, and reverts the tree.
# Usage: ./run_seeded.sh [name ...]      (default: all)
set -u
HERE="$(cd "$(dirname "${BASH_SOURCE[0]}")" && pwd)"
cd "$HERE"
if [ -n "$(git -C /repo status --porcelain --untracked-files=no)" ]; then
  echo "refusing to run: /repo has uncommitted changes" >&2; exit 2
fi
trap 'git -C /repo checkout -- . 2>/dev/null' EXIT
names=("$@"); [ ${#names[@]} -eq 0 ] && names=($(ls seeded | grep -v "^_" | grep -v "\.tsv$"))
printf "%-34s %-6s %-8s %s\n" seeded property caught kinds
RES="$HERE/seeded/last_run.tsv"; [ $# -eq 0 ] && : > "$RES"
for n in "${names[@]}"; do
  d="seeded/$n"; [ -f "$d/patch.diff" ] || continue
  prop=$(python3 -c "import json;print(json.load(open('$d/meta.json'))['property'])")
  tier=$(python3 -c "import json;print(json.load(open('$d/meta.json')).get('tier','quick'))")
  if ! git -C /repo apply "$HERE/$d/patch.diff" 2>/dev/null; then
    printf "%-34s %-6s %-8s %s\n" "$n" "$prop" "NOAPPLY" ""; continue
  fi
  out=$(./check "$prop" "$tier" 2>&1); code=$?
  git -C /repo checkout -- .
  kinds=$(echo "$out" | grep -oE "kind=[a-z_]+" | sort -u | tr '\n' ' ')
  if [ $code -eq 1 ] && echo "$out" | grep -q "^VIOLATION property=$prop"; then r=yes; elif [ $code -eq 2 ]; then r="exit2"; else r=NO; fi
  printf "%-34s %-6s %-8s %s\n" "$n" "$prop" "$r" "$kinds"
  printf "%s\t%s\t%s\t%s\n" "$n" "$prop" "$r" "$kinds" >> "$RES"
done
