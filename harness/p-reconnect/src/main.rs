//! C16 — reconnect retries only connection failures, boundedly (engine C grid over fault
//! sequences x configurations, each run stepped event by event under virtual time so that
//! the published connection state can be sampled during every sleep and at every inner call).

use serde_json::json;
use std::error::Error as StdError;
use std::sync::{Arc, Mutex};
use std::time::Duration;
use tower::{Layer, Service};
use tower_resilience_reconnect::{ConnectionState, ExponentialBackoff, ReconnectConfig, ReconnectLayer, ReconnectPolicy};
use trv_core::evidence::{Report, Tier, Violation};
use trv_core::inner::{CallStatus, GatedInner, InnerErr, Mode, Out, Plan, Req};
use trv_core::world::{drive_ready, Outcome, Phase, World};

trv_core::install_clock_seam!();

#[derive(Clone, Copy, Debug, PartialEq)]
enum Pol {
    None,
    /// retry at once
    Zero,
    Fixed,
    Exponential,
    Jittered,
    Custom,
    /// 900 us: less than a millisecond
    SubMs,
    /// 2.75 ms: a fractional number of milliseconds
    Fractional,
    /// exponential from 1.25 s, capped at 3.5 s: whole seconds plus a sub-second part
    Seconds,
    /// Duration::MAX: after a connection failure the call waits (for ever) in its back-off
    Forever,
    /// custom, growing for ever: 3 ms x (attempt index + 1); used for one long outage (22
    /// connection failures in a row within one request)
    Linear,
}

impl Pol {
    fn build(&self) -> ReconnectPolicy {
        match self {
            Pol::None => ReconnectPolicy::none(),
            Pol::Zero => ReconnectPolicy::fixed(Duration::ZERO),
            Pol::Fixed => ReconnectPolicy::fixed(Duration::from_millis(10)),
            Pol::Exponential => ReconnectPolicy::exponential(Duration::from_millis(10), Duration::from_millis(35)),
            Pol::Jittered => ReconnectPolicy::exponential_random(Duration::from_millis(10), Duration::from_millis(35), 0.5),
            Pol::Custom => ReconnectPolicy::Custom(Arc::new(ExponentialBackoff::new(Duration::from_millis(7)).multiplier(3.0))),
            Pol::SubMs => ReconnectPolicy::fixed(Duration::from_micros(900)),
            Pol::Fractional => ReconnectPolicy::fixed(Duration::from_micros(2750)),
            Pol::Seconds => ReconnectPolicy::exponential(Duration::from_millis(1250), Duration::from_millis(3500)),
            Pol::Forever => ReconnectPolicy::fixed(Duration::MAX),
            Pol::Linear => ReconnectPolicy::Custom(Arc::new(Linear)),
        }
    }
    /// upper bound (ms) of the configured delay for attempt index a
    fn delay_hi(&self, a: usize) -> f64 {
        match self {
            Pol::Jittered => self.delay_lo(a) * 3.0, // (1 + 0.5) / (1 - 0.5)
            _ => self.delay_lo(a),
        }
    }
    /// lower bound (ms) of the configured delay for attempt index a
    fn delay_lo(&self, a: usize) -> f64 {
        let exp = |init: f64, m: f64, cap: f64| (init * m.powi(a as i32)).min(cap);
        match self {
            Pol::None | Pol::Zero => 0.0,
            Pol::Fixed => 10.0,
            Pol::Exponential => exp(10.0, 2.0, 35.0),
            Pol::Jittered => exp(10.0, 2.0, 35.0) * 0.5,
            Pol::Custom => exp(7.0, 3.0, f64::MAX),
            Pol::SubMs => 0.9,
            Pol::Fractional => 2.75,
            Pol::Seconds => exp(1250.0, 2.0, 3500.0),
            Pol::Forever => f64::MAX,
            Pol::Linear => (a as f64 + 1.0) * 3.0,
        }
    }
}

/// 3 ms x (attempt index + 1)
struct Linear;

impl tower_resilience_reconnect::IntervalFunction for Linear {
    fn next_interval(&self, attempt: usize) -> Duration {
        Duration::from_millis((attempt as u64 + 1) * 3)
    }
}

#[derive(Clone, Debug)]
struct Cfg {
    max: Option<u32>,
    pol: Pol,
    retry_on_reconnect: bool,
    predicate: bool,
    /// every inner call takes 15 ms before it answers (a connect that hangs before it is
    /// refused): the delay before a retry counts from the failure, not from the start of the call
    slow: bool,
}

impl Cfg {
    fn label(&self) -> String {
        format!("reconnect max_attempts={:?} policy={:?} retry_on_reconnect={} predicate={}", self.max, self.pol, self.retry_on_reconnect, self.predicate) + if self.slow { " inner-calls-take-15ms" } else { "" }
    }
}

fn is_reconnectable(cfg: &Cfg, kind: u8) -> bool {
    !cfg.predicate || kind == 0
}

/// id of the InnerErr somewhere in the source chain of `e`
fn wrapped_inner_id(e: &(dyn StdError + 'static)) -> Option<u32> {
    let mut cur: Option<&(dyn StdError + 'static)> = Some(e);
    while let Some(x) = cur {
        if let Some(i) = x.downcast_ref::<InnerErr>() {
            return Some(i.id);
        }
        cur = x.source();
    }
    None
}

/// `prelude`: outcome script of an earlier request sent through the same service (empty = no
/// earlier request). The request under judgement then starts from whatever state the earlier
/// one left behind (Connected after a success; attempt counters, back-off state).
fn run_one(cfg: &Cfg, prelude: &[u8], script: &[u8], trace: bool) -> (Vec<(String, String)>, String, Vec<String>) {
    let site = "ReconnectService";
    let mut viols: Vec<(String, String)> = vec![];
    let mut log = vec![];
    // the seconds-range policy is stepped on a coarser grid (its delays are 1.25 s and more)
    let mut w = World::new(2, if cfg.pol == Pol::Seconds { 625 } else { 10 }, Mode::Script, 1);
    {
        let mut g = w.inner.lock().unwrap();
        for o in prelude.iter() {
            g.script.push_back(Plan::now(match o {
                0 => Out::Ok,
                1 => Out::Err(0),
                _ => Out::Err(1),
            }));
        }
        g.default_plan = Plan::now(Out::Ok);
    }
    let mut b = ReconnectConfig::builder().policy(cfg.pol.build()).retry_on_reconnect(cfg.retry_on_reconnect);
    b = match cfg.max {
        Some(m) => b.max_attempts(m),
        None => b.unlimited_attempts(),
    };
    // (odd limits: no-op listeners; on_reconnect exists with the tracing feature, which the
    // harness enables)
    if cfg.max.unwrap_or(1) % 2 == 1 {
        b = b.on_reconnect(|_| {}).on_state_change(|_, _| {});
    }
    if cfg.predicate {
        b = b.reconnect_predicate(|e: &dyn StdError| e.to_string().ends_with("kind 0"));
    }
    // (ReconnectConfig's Clone is written by hand: every second limit builds its layer from a
    // clone of the configuration, as an application configuring two backends from one
    // template does)
    let built = b.build();
    let layer = ReconnectLayer::new(if cfg.max.unwrap_or(0) % 2 == 0 { built.clone() } else { built });
    let state = layer.state().clone();
    let mut svc = if cfg.retry_on_reconnect { layer.clone().layer(GatedInner::new(w.inner.clone())) } else { layer.layer(GatedInner::new(w.inner.clone())) };
    // state sampled at the start of every inner call
    let at_call: Arc<Mutex<Vec<(usize, ConnectionState)>>> = Arc::new(Mutex::new(vec![]));
    {
        let at = at_call.clone();
        let st = state.clone();
        w.inner.lock().unwrap().on_call = Some(Arc::new(move |k| at.lock().unwrap().push((k, st.state()))));
    }
    let wrap = |f: <tower_resilience_reconnect::ReconnectService<GatedInner> as Service<Req>>::Future| -> trv_core::world::CallerFut {
        Box::pin(async move {
            match f.await {
                Ok(r) => Outcome::Ok(r),
                Err(e) => {
                    let id = wrapped_inner_id(&e);
                    Outcome::Layer(format!("{}|wraps={:?}", e.to_string().split(':').next().unwrap_or(""), id))
                }
            }
        })
    };
    let mut prelude_ok = None;
    if !prelude.is_empty() {
        drive_ready::<_, Req>(&mut svc, 4).expect("ready").ok();
        let req0 = Req::new(0, 0);
        let f0 = svc.call(req0.clone());
        w.set_arrived(1, req0, wrap(f0));
        for _ in 0..1000 {
            if w.needs_poll(1) {
                w.poll_caller(1);
            }
            if !w.callers[1].is_live() {
                break;
            }
            w.tick();
        }
        if w.callers[1].is_live() {
            viols.push(("never_resolves".into(), "the earlier request did not resolve within 200 events".into()));
            return (viols, "stuck".into(), log);
        }
        prelude_ok = Some(matches!(w.callers[1].phase, Phase::Done(Outcome::Ok(_))));
        if prelude_ok == Some(true) && state.state() != ConnectionState::Connected {
            viols.push(("not_connected_after_success".into(), format!("state {:?} after the earlier request succeeded", state.state())));
        }
        // script entries the earlier request did not consume must not leak into this one
        w.inner.lock().unwrap().script.clear();
    }
    {
        let mut g = w.inner.lock().unwrap();
        for o in script {
            let out = match o {
                0 => Out::Ok,
                1 => Out::Err(0),
                _ => Out::Err(1),
            };
            g.script.push_back(if cfg.slow { Plan::after(15, out) } else { Plan::now(out) });
        }
    }
    let first_call = w.inner.lock().unwrap().calls.len();
    at_call.lock().unwrap().clear();
    drive_ready::<_, Req>(&mut svc, 4).expect("ready").ok();
    let req = Req::new(1, 0);
    let f = svc.call(req.clone());
    w.set_arrived(0, req, wrap(f));
    let mut sleeping_states = vec![];
    for _ in 0..if cfg.pol == Pol::Forever { 6 } else { 200 } {
        if w.needs_poll(0) {
            w.poll_caller(0);
        }
        if !w.callers[0].is_live() {
            break;
        }
        // no inner call is running: the call is sleeping before a retry, a reconnectable
        // failure is being handled
        if w.inner_live() == 0 {
            sleeping_states.push((w.now_ms(), state.state()));
        }
        w.tick();
    }
    let g = w.inner.lock().unwrap();
    let calls: Vec<&trv_core::inner::CallRec> = g.calls.iter().filter(|c| c.req.id == 1).collect();
    let n = calls.len();
    if trace {
        log.push(format!("earlier request: script {:?} succeeded={:?}; {} inner calls", prelude, prelude_ok, first_call));
        for c in calls.iter() {
            log.push(format!("inner call {} at {}ms -> {:?}", c.k, c.start_ms, c.status));
        }
        log.push(format!("states at call starts {:?}; while sleeping {:?}; final {:?}; result {:?}", at_call.lock().unwrap(), sleeping_states, state.state(), w.callers[0].phase));
    }
    if w.callers[0].is_live() && cfg.pol == Pol::Forever {
        // an unbounded back-off: the call is expected to sit in it, quietly, with the state
        // lowered, after exactly one inner call that met a connection failure (also when
        // retry_on_reconnect is off: the layer still sits out the delay before it gives up)
        let ok_wait = calls.len() == 1 && matches!(&calls[0].status, CallStatus::Err(e) if is_reconnectable(cfg, e.kind)) && cfg.max != Some(0);
        if !ok_wait {
            viols.push(("never_resolves".into(), format!("the call is still pending although it is not in an unbounded back-off (inner calls: {:?})", calls.iter().map(|c| format!("{:?}", c.status)).collect::<Vec<_>>())));
        }
        for (t, s) in &sleeping_states {
            if *s == ConnectionState::Connected {
                viols.push(("connected_while_reconnecting".into(), format!("state Connected at {t}ms while the call sits in its back-off")));
            }
        }
        drop(g);
        return (viols, "1:waiting_in_unbounded_backoff".into(), log);
    }
    if w.callers[0].is_live() {
        viols.push(("never_resolves".into(), "the call did not resolve within 200 events".into()));
        return (viols, "stuck".into(), log);
    }
    if n == 0 {
        viols.push(("no_attempt".into(), "inner service never called".into()));
    }
    if let Some(m) = cfg.max {
        if n > m as usize + 1 {
            viols.push(("too_many_attempts".into(), format!("{n} inner calls with max_attempts={m}")));
        }
    }
    for k in 1..n {
        let prev = calls[k - 1];
        match &prev.status {
            CallStatus::Err(e) if is_reconnectable(cfg, e.kind) => {}
            other => viols.push(("retried_after_non_connection_outcome".into(), format!("attempt {k} ended {:?} but another attempt followed", other))),
        }
        if !cfg.retry_on_reconnect {
            viols.push(("retried_with_retry_disabled".into(), "retry_on_reconnect=false but the request was retried".into()));
        }
        let gap = (calls[k].start_ms - prev.end_ms.unwrap_or(prev.start_ms)) as f64;
        // the layer may number its attempts from 0 or from 1: accept the smaller delay
        // virtual instants are whole milliseconds: a gap of g ms satisfies a delay d iff g >= ceil(d)
        let need = (cfg.pol.delay_lo(k - 1).min(cfg.pol.delay_lo(k)) - 1e-9).ceil();
        if gap < need {
            viols.push(("retry_too_early".into(), format!("attempt {} started {gap}ms after attempt {k} failed; the policy's delay is at least {need}ms", k + 1)));
        }
        // ... and not (much) longer either: "waits the policy's delay", with the same freedom in
        // the numbering; every request starts its own count. Timers fire at the next
        // millisecond, the inner service is ready at once and the call is polled promptly, so
        // the retry starts at the first whole millisecond >= the delay.
        let most = (cfg.pol.delay_hi(k - 1).max(cfg.pol.delay_hi(k)) - 1e-9).ceil();
        if gap > most {
            viols.push(("retry_too_late".into(), format!("attempt {} started {gap}ms after attempt {k} failed; the policy's delay for retry {k} of this request is at most {most}ms", k + 1)));
        }
        if cfg.pol == Pol::None {
            viols.push(("retried_without_policy".into(), "policy none but the request was retried".into()));
        }
    }
    if n == 0 {
        return (viols, "0:none".into(), log);
    }
    let last = calls[n - 1];
    let outcome = match &w.callers[0].phase {
        Phase::Done(o) => o.clone(),
        p => Outcome::Layer(format!("{p:?}")),
    };
    match (&last.status, &outcome) {
        (CallStatus::Ok(r), Outcome::Ok(r2)) if r == r2 => {
            if state.state() != ConnectionState::Connected {
                viols.push(("not_connected_after_success".into(), format!("state {:?} after a successful call", state.state())));
            }
        }
        (CallStatus::Err(e), Outcome::Layer(t)) => {
            // giving up on a connection failure is only allowed once max_attempts+1 calls have
            // been made (or when retrying is switched off / there is no policy)
            let exhausted = match cfg.max {
                Some(m) => n >= m as usize + 1,
                None => false,
            };
            if is_reconnectable(cfg, e.kind) && cfg.retry_on_reconnect && cfg.pol != Pol::None && !exhausted {
                viols.push(("gave_up_early".into(), format!("the call failed after {n} inner calls on a connection failure although max_attempts={:?} allows more (returned {t})", cfg.max)));
            }
            if !t.ends_with(&format!("wraps=Some({})", e.id)) {
                viols.push(("error_does_not_wrap_last_inner_error".into(), format!("last inner error id {} but the call returned {t}", e.id)));
            }
        }
        (s, o) => viols.push(("wrong_result".into(), format!("last inner outcome {:?} but the call returned {:?}", s, o))),
    }
    // published state while a reconnectable failure is being handled
    for (t, s) in &sleeping_states {
        if *s == ConnectionState::Connected {
            viols.push(("connected_while_reconnecting".into(), format!("state Connected at {t}ms while the call sleeps before a retry")));
        }
    }
    for (k, s) in at_call.lock().unwrap().iter() {
        if *k >= first_call + 1 && *s == ConnectionState::Connected {
            viols.push(("connected_while_reconnecting".into(), format!("state Connected at the start of retry #{}", k - first_call)));
        }
    }
    let _ = site;
    (viols, format!("{n}:{}", outcome.tag().split('|').next().unwrap_or("")), log)
}

fn grid(tier: Tier) -> Vec<Cfg> {
    let mut v = vec![];
    for max in [Some(0u32), Some(1), Some(2), Some(3), Some(4), None] {
        if tier == Tier::Quick && max == Some(4) {
            continue;
        }
        for pol in [Pol::None, Pol::Zero, Pol::Fixed, Pol::Exponential, Pol::Jittered, Pol::Custom, Pol::SubMs, Pol::Fractional, Pol::Seconds, Pol::Forever] {
            for retry_on_reconnect in [true, false] {
                for predicate in [false, true] {
                    if tier == Tier::Quick && max == Some(3) && pol == Pol::Jittered {
                        continue;
                    }
                    v.push(Cfg { max, pol, retry_on_reconnect, predicate, slow: false });
                }
            }
        }
    }
    // inner calls that take a while before they fail
    for pol in [Pol::Fixed, Pol::Exponential, Pol::SubMs] {
        for predicate in [false, true] {
            v.push(Cfg { max: Some(2), pol, retry_on_reconnect: true, predicate, slow: true });
        }
    }
    // one long outage: unlimited attempts, a policy that keeps growing
    for predicate in [false, true] {
        v.push(Cfg { max: None, pol: Pol::Linear, retry_on_reconnect: true, predicate, slow: false });
    }
    v
}

fn scripts(cfg: &Cfg) -> Vec<Vec<u8>> {
    if cfg.pol == Pol::Linear {
        let mut s = vec![1u8; 22];
        s.push(0);
        return vec![s];
    }
    let len = match cfg.max {
        Some(m) => m as usize + 2,
        None => 4,
    };
    let mut out = vec![];
    let total = 3usize.pow(len as u32);
    for code in 0..total {
        let mut c = code;
        let mut s = vec![];
        for _ in 0..len {
            s.push((c % 3) as u8);
            c /= 3;
        }
        if cfg.max.is_none() {
            s.push(0); // unlimited: the sequence ends in a success
        }
        out.push(s);
    }
    out
}

fn main() {
    trv_core::startup();
    let cli = trv_core::parse_cli();
    if cli.property != "C16" {
        eprintln!("p-reconnect serves C16");
        std::process::exit(2);
    }
    let names = ["ok", "connection_error", "other_error"];
    if let Some(p) = cli.replay {
        let v = trv_core::load_replay(&p);
        let label = v["config"].as_str().unwrap_or("");
        let parse = |x: &serde_json::Value| -> Vec<u8> { x.as_array().map(|a| a.iter().filter_map(|x| names.iter().position(|n| Some(*n) == x.as_str()).map(|i| i as u8)).collect()).unwrap_or_default() };
        let (prelude, script) = if v["history"].is_array() { (vec![], parse(&v["history"])) } else { (parse(&v["history"]["earlier_request"]), parse(&v["history"]["script"])) };
        let kind = v["kind"].as_str().unwrap_or("");
        for cfg in grid(Tier::Thorough) {
            if cfg.label() == label {
                let (viols, _, log) = run_one(&cfg, &prelude, &script, true);
                for l in log {
                    println!("{l}");
                }
                for (k, d) in &viols {
                    println!("VIOLATED {k}: {d}");
                }
                if viols.iter().any(|(k, _)| k == kind) {
                    println!("VIOLATION property=C16 replay={p}");
                    std::process::exit(1);
                }
                println!("replay: the recorded violation does not occur on the current tree");
                std::process::exit(0);
            }
        }
        eprintln!("MACHINERY no configuration labelled '{label}'");
        std::process::exit(2);
    }
    let tier = cli.tier;
    let mut rep = Report::new("C16", tier, "exploration");
    rep.rule = "full grid: every inner-outcome script over {ok, connection error, other error} of length max_attempts+2 (4 + final ok when unlimited) x max_attempts {0,1,2,3,unlimited} x policy {none, zero, fixed 10 ms, exponential, jittered, custom, fixed 0.9 ms, fixed 2.75 ms} x retry_on_reconnect x predicate x an earlier request through the same service {none, succeeds at once, succeeds after one reconnect, fails with a non-connection error, meets connection errors only, meets a connection error and then a non-connection error}, each run stepped event by event under virtual time with the published connection state sampled during every sleep and at every inner call start; distinct = distinct (configuration, attempts made, result) triples".into();
    rep.assumptions = vec![
        "the delay before retry k is compared with the smaller of the policy's values for attempt indices k-1 and k (the documentation does not fix the numbering)".into(),
        "jittered delays: lower bound (1 - randomization factor) x base checked on every draw".into(),
    ];
    let cfgs = grid(tier);
    let mut reported = std::collections::BTreeSet::new();
    let mut n_scripts = 0u64;
    // an earlier request through the same service: none / succeeds at once / succeeds after one
    // reconnect / fails with a non-connection error / meets connection errors only
    // (... / meets a connection error and then, on the retry, an error that is none: with a
    // predicate that request ends there and leaves the state as the outage set it)
    let preludes: Vec<Vec<u8>> = vec![vec![], vec![0], vec![1, 0], vec![2], vec![1, 1, 1, 1, 1], vec![1, 2]];
    for cfg in &cfgs {
        for pre in &preludes {
            if cfg.pol == Pol::Forever && pre.iter().any(|o| *o != 0) {
                // an earlier request that meets a connection error would itself wait for ever
                continue;
            }
            for s in scripts(cfg) {
                let (viols, outcome, _) = run_one(cfg, pre, &s, false);
                rep.evaluations += 1;
                n_scripts += 1;
                rep.distinct.insert(format!("{}|{:?}|{}", cfg.label(), pre, outcome));
                rep.outcomes.insert(outcome.clone());
                if outcome.starts_with("2:") || outcome.starts_with("3:") || outcome.starts_with("4:") {
                    rep.witness("retried", 1);
                    if *pre == vec![0u8] || *pre == vec![1u8, 0] {
                        rep.witness("retried_after_an_earlier_success", 1);
                    }
                }
                if outcome.contains("max reconnection") {
                    rep.witness("max_attempts_exceeded", 1);
                }
                if outcome.contains("service error") {
                    rep.witness("non_connection_error_not_retried", 1);
                }
                for (kind, detail) in viols {
                    if reported.insert(kind.clone()) {
                        let (_, _, log) = run_one(cfg, pre, &s, true);
                        rep.violations.push(Violation {
                            property: "C16".into(),
                            kind,
                            site: "ReconnectService".into(),
                            config: cfg.label(),
                            history: json!({"earlier_request": pre.iter().map(|o| names[*o as usize]).collect::<Vec<_>>(), "script": s.iter().map(|o| names[*o as usize]).collect::<Vec<_>>()}),
                            detail,
                            log,
                        });
                    }
                }
                if n_scripts % 977 == 1 {
                    rep.sample(json!({"config": cfg.label(), "earlier_request": pre.iter().map(|o| names[*o as usize]).collect::<Vec<_>>(), "script": s.iter().map(|o| names[*o as usize]).collect::<Vec<_>>(), "attempts:result": outcome}));
                }
            }
        }
    }
    for w in ["retried", "retried_after_an_earlier_success", "max_attempts_exceeded", "non_connection_error_not_retried"] {
        rep.require_witness(w);
    }
    rep.bounds = json!({"configurations": cfgs.len(), "scripts": n_scripts});

    trv_core::finish(rep);
}
