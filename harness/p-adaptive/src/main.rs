//! C13 — adaptive limiter: limit in bounds (engines B + C), in-flight exact (engine A).

use serde_json::json;
use std::collections::BTreeSet;
use std::sync::Arc;
use std::time::Duration;
use tower::{Layer, Service};
use tower_resilience_adaptive::{AdaptiveError, AdaptiveLimiterLayer, AdaptiveService, Aimd, ConcurrencyAlgorithm, Vegas};
use tower_resilience_core::{AimdConfig, AimdController};
use trv_core::evidence::{Report, Tier, Violation};
use trv_core::ilv::{self, OpFn, Spec};
use trv_core::inner::{GatedInner, Out, Req};
use trv_core::seq;
use trv_core::svcx::{self, Action, Counts, Opts, Scenario, Viol};
use trv_core::world::{Outcome, Phase, World};

mod threads;

trv_core::install_clock_seam!();

// ---------------------------------------------------------------------------------------
// limit bounds: engine B (interleavings) and engine C (sequences)

#[derive(Clone, Debug)]
struct LimCfg {
    kind: &'static str, // "controller" | "aimd" | "vegas"
    min: usize,
    initial: usize,
    max: usize,
    factor: f64,
    /// additive increase of the AIMD variants (any usize is a legal setting: usize::MAX says
    /// "jump straight to the ceiling")
    increase: usize,
    alpha: usize,
    beta: usize,
    programs: Vec<&'static str>,
}

enum Lim {
    Controller(AimdController),
    Aimd(Aimd),
    Vegas(Vegas),
}

const THRESH_MS: u64 = 15;

impl Lim {
    fn limit(&self) -> usize {
        match self {
            Lim::Controller(c) => c.limit(),
            Lim::Aimd(a) => a.limit(),
            Lim::Vegas(v) => v.limit(),
        }
    }
    /// feedback: 'f' fast success, 's' slow success, 'v' very slow success, 'x' failure
    fn feed(&self, c: char) {
        let lat = match c {
            'f' => Duration::from_millis(1),
            's' => Duration::from_millis(20),
            'v' => Duration::from_millis(500),
            _ => Duration::ZERO,
        };
        match (self, c) {
            (Lim::Controller(k), 'x') | (Lim::Controller(k), 's') | (Lim::Controller(k), 'v') => k.record_failure(),
            (Lim::Controller(k), _) => k.record_success(),
            (Lim::Aimd(a), 'x') => a.record_failure(),
            (Lim::Aimd(a), _) => a.record_success(lat),
            (Lim::Vegas(v), 'x') => v.record_failure(),
            (Lim::Vegas(v), _) => v.record_success(lat),
        }
    }
}

impl LimCfg {
    fn label(&self) -> String {
        format!("{} min={} initial={} max={} factor={} alpha={} beta={} programs={:?}{}", self.kind, self.min, self.initial, self.max, self.factor, self.alpha, self.beta, self.programs, if self.increase != 1 { format!(" increase_by={}", self.increase) } else { String::new() })
    }
    fn make(&self, warmup: &str) -> Lim {
        let cfg = AimdConfig::new().with_min_limit(self.min).with_initial_limit(self.initial).with_max_limit(self.max).with_increase_by(self.increase).with_decrease_factor(self.factor);
        let l = match self.kind {
            "controller" => Lim::Controller(AimdController::new(cfg)),
            "aimd" => Lim::Aimd(Aimd::new(cfg, Duration::from_millis(THRESH_MS))),
            _ => Lim::Vegas(Vegas::new(self.initial, self.min, self.max, self.alpha, self.beta)),
        };
        for c in warmup.chars() {
            l.feed(c);
        }
        l
    }
}

fn lim_configs(tier: Tier) -> Vec<LimCfg> {
    // (the last two: an initial limit outside [min, max] - the constructors must bring it in)
    // (... and limits beyond 2^53, where usize -> f64 -> usize does not round-trip)
    const BIG: usize = (1usize << 53) + 3;
    let bounds = [(1usize, 2usize, 3usize), (2, 2, 2), (1, 1, 4), (2, 9, 4), (2, 0, 4), (1, BIG, BIG), (1, usize::MAX, usize::MAX)];
    let programs: Vec<Vec<&'static str>> = tier.pick(
        vec![vec!["f", "x"], vec!["x", "x"], vec!["f", "f"], vec!["fs", "x"], vec!["f", "s", "x"]],
        vec![vec!["f", "x"], vec!["x", "x"], vec!["f", "f"], vec!["fs", "x"], vec!["f", "s", "x"], vec!["fx", "xf"], vec!["ff", "xx"], vec!["v", "f", "x"]],
    );
    let mut v = vec![];
    for (min, initial, max) in bounds {
        for kind in ["controller", "aimd", "vegas"] {
            let factors: Vec<f64> = if kind == "vegas" { vec![0.5] } else { vec![0.0, 0.5, 1.0] };
            for factor in factors {
                let ab: Vec<(usize, usize)> = if kind == "vegas" { vec![(1, 2), (3, 6)] } else { vec![(0, 0)] };
                for (alpha, beta) in ab {
                    for p in &programs {
                        v.push(LimCfg { kind, min, initial, max, factor, increase: 1, alpha, beta, programs: p.clone() });
                    }
                }
            }
        }
    }
    // other additive increases, up to the largest legal one
    for (min, initial, max) in [(1usize, 1usize, 4usize), (5, 5, 100), (1, 1, usize::MAX)] {
        for kind in ["controller", "aimd"] {
            for increase in [2usize, usize::MAX - 2, usize::MAX] {
                for p in programs.iter().take(2) {
                    v.push(LimCfg { kind, min, initial, max, factor: 0.5, increase, alpha: 0, beta: 0, programs: p.clone() });
                }
            }
        }
    }
    v
}

fn check_lim_interleavings(cfg: &LimCfg, tier: Tier, rep: &mut Report) {
    let (min, max) = (cfg.min, cfg.max);
    let threads = cfg
        .programs
        .iter()
        .map(|p| {
            p.chars()
                .map(|c| {
                    let op: OpFn<Lim, i64> = Arc::new(move |l: &Lim| {
                        l.feed(c);
                        0
                    });
                    (c.to_string(), op)
                })
                .collect()
        })
        .collect();
    let me = cfg.clone();
    // Vegas adjusts only after 10 samples: warm it up sequentially with mixed latencies
    let warm = if cfg.kind == "vegas" { "ffffffffffs" } else { "" };
    let spec = Spec {
        name: cfg.label(),
        make: Arc::new(move || me.make(warm)),
        threads,
        install_hook: Arc::new(|| tower_resilience_core::verif::set_yield_hook(Some(Box::new(|op| ilv::yield_point(op))))),
        uninstall_hook: Arc::new(|| tower_resilience_core::verif::set_yield_hook(None)),
        step_check: Arc::new(move |l: &Lim| {
            let x = l.limit();
            if x < min || x > max {
                Some(format!("limit {x} outside [{min}, {max}]"))
            } else {
                None
            }
        }),
        spurious: tier == Tier::Thorough,
    };
    let mut outcomes: BTreeSet<usize> = BTreeSet::new();
    let mut total = 0u64;
    let mut found: Option<(String, Vec<usize>)> = None;
    // thorough: unbounded only for two threads with at most three operations; larger programs
    // up to three preemptions (their unbounded schedule space runs into millions)
    let ops: usize = cfg.programs.iter().map(|p| p.len()).sum();
    let small = cfg.programs.len() == 2 && ops <= 3;
    let bounds: Vec<Option<usize>> = tier.pick(vec![Some(0), Some(1), Some(2)], if cfg.kind == "vegas" {
        // Vegas has the longest atomic protocols: two preemptions for three threads, three for two
        if small { vec![Some(2), Some(3)] } else { vec![Some(2)] }
    } else if small {
        vec![Some(2), None]
    } else {
        vec![Some(2), Some(3)]
    });
    let mut done = None;
    // wall-clock cap per configuration; a capped bound is reported as such
    ilv::set_deadline(Some(std::time::Instant::now() + std::time::Duration::from_secs(tier.pick(20, 90))));
    for b in bounds {
        let stats = ilv::explore(&spec, b, tier.pick(100_000, 2_000_000), |x, shared, choices| {
            outcomes.insert(shared.limit());
            if let Some(v) = &x.step_violation {
                found = Some((v.clone(), choices.to_vec()));
                return false;
            }
            if x.panicked {
                found = Some(("an operation panicked".into(), choices.to_vec()));
                return false;
            }
            true
        });
        total += stats.schedules;
        if stats.capped {
            rep.caps.push(format!("{}: schedule/time cap hit at preemption bound {} (bounds below it were completed)", cfg.label(), b.map_or("unbounded".to_string(), |n| n.to_string())));
            break;
        }
        done = Some(b.map_or("unbounded".to_string(), |n| n.to_string()));
        if found.is_some() {
            break;
        }
    }
    rep.transitions += total;
    rep.executions += total;
    rep.states += outcomes.len() as u64;
    rep.witness("interleaving_schedules", total);
    if outcomes.len() >= 2 {
        rep.witness("config_with_several_final_limits", 1);
    }
    rep.configs.push(json!({"config": cfg.label(), "schedules": total, "preemption_bound_completed": done, "final_limits": outcomes}));
    if let Some((detail, choices)) = found {
        let (a, _) = ilv::run(&spec, &choices, true);
        rep.violations.push(Violation { property: "C13".into(), kind: "limit_out_of_bounds".into(), site: cfg.kind.into(), config: cfg.label(), history: json!(choices), detail, log: a.trace });
    }
}

fn check_lim_sequences(tier: Tier, rep: &mut Report) {
    let len = tier.pick(6usize, 8);
    let alphabet = ['f', 's', 'v', 'x'];
    let warmups = ["", "ffffffffff", "ffffffffffss"];
    let mut evals = 0u64;
    let mut distinct: BTreeSet<String> = BTreeSet::new();
    let mut reported = false;
    for cfg in lim_configs(Tier::Quick).into_iter().filter(|c| c.programs == vec!["f", "x"]) {
        for warm in warmups {
            let total = 4usize.pow(len as u32);
            for code in 0..total {
                // (the warm-up is fed step by step too: the bounds hold from the first sample on)
                let l = cfg.make("");
                let mut c = code;
                let mut seqs = String::new();
                for step in 0..warm.len() + len {
                    let ch = if step < warm.len() {
                        warm.as_bytes()[step] as char
                    } else {
                        let ch = alphabet[c % 4];
                        c /= 4;
                        ch
                    };
                    seqs.push(ch);
                    l.feed(ch);
                    let x = l.limit();
                    if (x < cfg.min || x > cfg.max) && !reported {
                        reported = true;
                        rep.violations.push(Violation {
                            property: "C13".into(),
                            kind: "limit_out_of_bounds".into(),
                            site: cfg.kind.into(),
                            config: cfg.label(),
                            history: json!({"feedback_including_warmup": seqs}),
                            detail: format!("limit {x} outside [{}, {}] after feedback {seqs}", cfg.min, cfg.max),
                            log: vec![],
                        });
                    }
                }
                evals += 1;
                distinct.insert(format!("{}|{}|{}", cfg.kind, cfg.max, l.limit()));
            }
        }
    }
    rep.evaluations += evals;
    rep.extra.insert("sequential_feedback_sequences".into(), json!({"length": len, "sequences": evals, "distinct_final": distinct.len()}));
    rep.distinct.extend(distinct);
}

// ---------------------------------------------------------------------------------------
// service: in-flight exact, readiness iff live < limit (engine A)

struct Svc {
    /// callers may go through either of two services built by one layer
    siblings: bool,
    vegas: bool,
    callers: usize,
    max_ticks: usize,
    max_drops: usize,
    max_panics: usize,
    max_ready_checks: usize,
    /// the first inner call panics synchronously inside call()
    sync_panic_first: bool,
    /// the limit the algorithm starts from (2, or 3: a failure then cuts the limit to below
    /// the number of calls still running)
    initial: usize,
}

type A = AdaptiveService<GatedInner, Aimd>;
type V = AdaptiveService<GatedInner, Vegas>;

enum Handle {
    A(A),
    V(V),
}

impl Handle {
    fn in_flight(&self) -> usize {
        match self {
            Handle::A(s) => s.in_flight(),
            Handle::V(s) => s.in_flight(),
        }
    }
    fn limit(&self) -> usize {
        match self {
            Handle::A(s) => s.limit(),
            Handle::V(s) => s.limit(),
        }
    }
    fn clone_h(&self) -> Handle {
        match self {
            Handle::A(s) => Handle::A(s.clone()),
            Handle::V(s) => Handle::V(s.clone()),
        }
    }
}

struct X {
    svc: Handle,
    /// a second service produced by the same layer: it shares the algorithm (the limit) with
    /// `svc` but counts its own calls
    sibling: Handle,
    /// per caller: (service index, its own clone), once it has checked readiness successfully
    ready: Vec<Option<(u8, Handle)>>,
    ready_checks: usize,
    saw_refusal: bool,
    last_checked: u8,
}

fn map(r: Result<trv_core::inner::Resp, AdaptiveError<trv_core::inner::InnerErr>>) -> Outcome {
    match r {
        Ok(r) => Outcome::Ok(r),
        Err(AdaptiveError::Service(e)) => Outcome::Inner(e),
        Err(AdaptiveError::LimitReached) => Outcome::Layer("LimitReached".into()),
    }
}

impl Scenario for Svc {
    type X = X;
    fn property(&self) -> &'static str {
        "C13"
    }
    fn label(&self) -> String {
        format!("adaptive service algorithm={} callers={}{}", if self.vegas { "vegas" } else { "aimd" }, self.callers, if self.initial != 2 { " initial-limit-3" } else if self.siblings { " two-services-of-one-layer" } else if self.sync_panic_first { " first-inner-call-panics-in-call()" } else { "" })
    }
    fn callers(&self) -> usize {
        self.callers
    }
    fn init(&self, w: &mut World) -> X {
        if self.sync_panic_first {
            w.inner.lock().unwrap().sync_panic_calls = vec![0];
        }
        let inner = GatedInner::new(w.inner.clone());
        let inner2 = GatedInner::new(w.inner.clone());
        let (svc, sibling) = if self.vegas {
            let layer = AdaptiveLimiterLayer::new(Vegas::new(self.initial, 1, 3, 1, 2));
            (Handle::V(layer.clone().layer(inner)), Handle::V(layer.layer(inner2)))
        } else {
            let a = Aimd::builder().initial_limit(self.initial).min_limit(1).max_limit(3).latency_threshold(Duration::from_millis(THRESH_MS)).build();
            let layer = AdaptiveLimiterLayer::new(a);
            (Handle::A(layer.clone().layer(inner)), Handle::A(layer.layer(inner2)))
        };
        X { svc, sibling, ready: (0..self.callers + 4).map(|_| None).collect(), ready_checks: 0, saw_refusal: false, last_checked: 0 }
    }
    /// Ctl(0): the next caller checks readiness on its own clone
    fn ctl_actions(&self, w: &World, x: &X) -> Vec<u8> {
        match w.callers.iter().position(|c| c.phase == Phase::NotArrived) {
            Some(c) if c < self.callers && x.ready[c].is_none() => if self.siblings { vec![0, 1] } else { vec![0] },
            // Ctl(2): a caller that was told Ready asks again on the same handle before it calls
            // (a select! loop, a load balancer): the answer is judged like the first one
            Some(c) if c < self.callers => vec![2],
            _ => vec![],
        }
    }
    fn apply_ctl(&self, w: &mut World, x: &mut X, ctl: u8) {
        let c = w.callers.iter().position(|c| c.phase == Phase::NotArrived).unwrap();
        let (ctl, mut h) = if ctl == 2 {
            x.ready[c].take().expect("re-check without a ready handle")
        } else {
            (ctl, if ctl == 0 { x.svc.clone_h() } else { x.sibling.clone_h() })
        };
        x.last_checked = ctl;
        let waker = futures::task::noop_waker();
        let mut cx = std::task::Context::from_waker(&waker);
        let r = match &mut h {
            Handle::A(s) => Service::<Req>::poll_ready(s, &mut cx).map(|r| r.is_ok()),
            Handle::V(s) => Service::<Req>::poll_ready(s, &mut cx).map(|r| r.is_ok()),
        };
        x.ready_checks += 1;
        w.callers[c].user = match r {
            std::task::Poll::Ready(true) => 1,
            std::task::Poll::Ready(false) => 2,
            std::task::Poll::Pending => 3,
        };
        if let std::task::Poll::Ready(true) = r {
            x.ready[c] = Some((ctl, h));
        }
    }
    fn retain_completed(&self) -> bool {
        true
    }
    fn arrive(&self, w: &mut World, x: &mut X, c: usize, _v: u8) {
        let (which, mut h) = x.ready[c].take().expect("arrive without readiness");
        // the request's key names the service it goes through
        let req = Req::new(c as u32, which);
        // (the inner service may panic inside call(): the call then panics before a future exists)
        let r = std::panic::catch_unwind(std::panic::AssertUnwindSafe(|| -> trv_core::world::CallerFut {
            match &mut h {
                // `keep` does not drop the service's own future when it resolves: the explorer
                // decides when a finished call's future goes away (join!, select! on &mut fut)
                Handle::A(s) => trv_core::world::keep(s.call(req.clone()), map),
                Handle::V(s) => trv_core::world::keep(s.call(req.clone()), map),
            }
        }));
        match r {
            Ok(fut) => w.set_arrived(c, req, fut),
            Err(_) => w.set_resolved_at_arrival(c, req, Outcome::Layer("PanickedInCall".into())),
        }
    }
    fn outs(&self) -> Vec<Out> {
        vec![Out::Ok, Out::Err(0), Out::Panic]
    }
    fn allow(&self, _w: &World, x: &X, h: &[Action], a: &Action) -> bool {
        let c = Counts::of(h);
        match a {
            Action::Arrive(c, _) => x.ready[*c as usize].is_some(),
            Action::Tick => c.ticks < self.max_ticks,
            Action::Drop(_) => c.drops < self.max_drops,
            Action::Complete(_, Out::Panic) => c.panics < self.max_panics,
            Action::Ctl(_) => c.ctls < self.max_ready_checks,
            _ => true,
        }
    }
    fn fingerprint(&self, _w: &World, x: &X) -> String {
        format!("if{}/{} lim{} ready{:?}", x.svc.in_flight(), x.sibling.in_flight(), x.svc.limit(), x.ready.iter().map(|r| r.as_ref().map(|(s, _)| *s)).collect::<Vec<_>>())
    }
    fn after(&self, w: &mut World, x: &mut X, a: &Action, out: &mut Vec<Viol>) {
        let site = "AdaptiveService";
        let live_of = |w: &World, key: u8| w.inner.lock().unwrap().calls.iter().filter(|k| k.req.key == key && k.status == trv_core::inner::CallStatus::Pending).count();
        let lim = x.svc.limit();
        for (key, h) in [(0u8, &x.svc), (1u8, &x.sibling)] {
            let live = live_of(w, key);
            let inf = h.in_flight();
            if inf != live {
                out.push(Viol::new("in_flight_mismatch", site, format!("service {key}: in_flight() reports {inf} but {live} of its inner calls are in flight (after {})", a.enc())));
            }
        }
        if x.sibling.limit() != lim {
            out.push(Viol::new("limit_not_shared", site, format!("two services of one layer report limits {} and {}", lim, x.sibling.limit())));
        }
        if !(1..=3).contains(&lim) {
            out.push(Viol::new("limit_out_of_bounds", site, format!("limit {lim} outside [1,3]")));
        }
        if let Action::Ctl(_) = a {
            // the caller that just checked readiness (on the service x.last_checked)
            let which = &x.last_checked;
            if let Some(c) = w.callers.iter().position(|c| c.phase == Phase::NotArrived) {
                let ans = w.callers[c].user;
                let live = live_of(w, *which);
                let inf = if *which == 0 { x.svc.in_flight() } else { x.sibling.in_flight() };
                if live < lim && ans != 1 {
                    out.push(Viol::new("readiness_refused_below_limit", site, format!("service {which}: {live} calls in flight, limit {lim}, but poll_ready did not return Ready (in_flight()={inf})")));
                }
                if live >= lim && ans == 1 {
                    out.push(Viol::new("ready_at_limit", site, format!("service {which}: {live} calls in flight, limit {lim}, but poll_ready returned Ready")));
                }
                if ans == 3 {
                    x.saw_refusal = true;
                }
            }
        }
    }
    fn witnesses(&self, w: &World, x: &X, h: &[Action]) -> Vec<&'static str> {
        let mut v = vec![];
        if x.saw_refusal {
            v.push("readiness_refused_at_limit");
        }
        if let Some(Action::Drop(c)) = h.last() {
            if !w.inner_calls_for_req(*c as u32).is_empty() {
                v.push("running_call_dropped");
            }
        }
        if w.callers.iter().any(|c| c.phase == Phase::Panicked) {
            v.push("inner_panicked");
        }
        if x.svc.limit() != 2 {
            v.push("limit_adapted");
        }
        if self.siblings && x.svc.limit() != 2 && x.svc.in_flight() + x.sibling.in_flight() > 0 {
            v.push("limit_moved_while_sibling_busy");
        }
        if w.inner_live() >= 2 {
            v.push("two_calls_in_flight");
        }
        v
    }
    fn epilogue(&self, w: &mut World, x: &mut X, out: &mut Vec<Viol>) -> String {
        let site = "AdaptiveService";
        if !svcx::drain(w, 8) {
            out.push(Viol::new("caller_never_resolves", site, "callers unresolved after draining".to_string()));
            return "stuck".into();
        }
        let inf = x.svc.in_flight() + x.sibling.in_flight();
        if inf != 0 {
            out.push(Viol::new("in_flight_not_zero_at_quiescence", site, format!("nothing is running but in_flight() reports {} / {}", x.svc.in_flight(), x.sibling.in_flight())));
        }
        // readiness must be granted again, on both services
        let mut ready = true;
        for base in [&x.svc, &x.sibling] {
            let mut h = base.clone_h();
            let waker = futures::task::noop_waker();
            let mut cx = std::task::Context::from_waker(&waker);
            let r = match &mut h {
                Handle::A(s) => Service::<Req>::poll_ready(s, &mut cx).is_ready(),
                Handle::V(s) => Service::<Req>::poll_ready(s, &mut cx).is_ready(),
            };
            if !r {
                ready = false;
                out.push(Viol::new("readiness_refused_below_limit", site, format!("nothing is running (limit {}) but poll_ready is Pending", x.svc.limit())));
            }
        }
        let sig: Vec<String> = w.callers.iter().map(|c| match &c.phase { Phase::Done(o) => o.tag(), p => format!("{p:?}") }).collect();
        format!("{sig:?}/{inf}/{ready}")
    }
}

fn svc_configs(tier: Tier) -> Vec<Svc> {
    vec![
        Svc { siblings: false, vegas: false, callers: tier.pick(3, 4), max_ticks: 3, max_drops: 2, max_panics: 1, max_ready_checks: tier.pick(5, 6), sync_panic_first: false, initial: 2 },
        Svc { siblings: false, vegas: true, callers: 3, max_ticks: 2, max_drops: 1, max_panics: 1, max_ready_checks: 4, sync_panic_first: false, initial: 2 },
        Svc { siblings: false, vegas: false, callers: 3, max_ticks: 1, max_drops: 1, max_panics: 0, max_ready_checks: 4, sync_panic_first: true, initial: 2 },
        // three calls running at the initial limit of three; a failure halves the limit while
        // two are still running
        Svc { siblings: false, vegas: false, callers: 4, max_ticks: 0, max_drops: 0, max_panics: 0, max_ready_checks: 5, sync_panic_first: false, initial: 3 },
        Svc { siblings: false, vegas: true, callers: 4, max_ticks: 0, max_drops: 0, max_panics: 0, max_ready_checks: 5, sync_panic_first: false, initial: 3 },
        Svc { siblings: true, vegas: false, callers: 3, max_ticks: tier.pick(1, 2), max_drops: 1, max_panics: 0, max_ready_checks: tier.pick(4, 5), sync_panic_first: false, initial: 2 },
    ]
}

fn main() {
    trv_core::startup();
    let cli = trv_core::parse_cli();
    if cli.property != "C13" {
        eprintln!("p-adaptive serves C13");
        std::process::exit(2);
    }
    if let Some(p) = cli.replay {
        let v = trv_core::load_replay(&p);
        if let Some(ch) = v["history"]["thread_schedule"].as_array() {
            let choices: Vec<usize> = ch.iter().filter_map(|x| x.as_u64().map(|u| u as usize)).collect();
            match threads::replay(v["config"].as_str().unwrap_or(""), &choices, v["kind"].as_str().unwrap_or("")) {
                Some(true) => {
                    println!("VIOLATION property=C13 replay={p}");
                    std::process::exit(1);
                }
                Some(false) => {
                    println!("replay: the recorded violation does not occur on the current tree");
                    std::process::exit(0);
                }
                None => {
                    eprintln!("MACHINERY no thread configuration with that label");
                    std::process::exit(2);
                }
            }
        }
        if v["config"].as_str().unwrap_or("").starts_with("adaptive service") {
            let mut c = svc_configs(Tier::Quick);
            c.extend(svc_configs(Tier::Thorough));
            svcx::replay_main("C13", &p, c);
        }
        // limit interleaving replay
        let label = v["config"].as_str().unwrap_or("").to_string();
        let mut all = lim_configs(Tier::Quick);
        all.extend(lim_configs(Tier::Thorough));
        for cfg in all {
            if cfg.label() == label {
                let mut rep = Report::new("C13", Tier::Thorough, "model_checking");
                check_lim_interleavings(&cfg, Tier::Quick, &mut rep);
                if !rep.violations.is_empty() {
                    println!("VIOLATION property=C13 replay={p}");
                    std::process::exit(1);
                }
                println!("replay: the recorded violation does not occur on the current tree");
                std::process::exit(0);
            }
        }
        eprintln!("MACHINERY no configuration labelled '{label}'");
        std::process::exit(2);
    }
    let tier = cli.tier;
    let mut rep = Report::new("C13", tier, "model_checking");
    rep.rule = "(a) preemption-bounded DFS over atomic-step interleavings of 2-3 threads feeding success/slow/failure into AimdController, Aimd and Vegas, limit checked after every atomic step; (b) all feedback sequences up to length 6-8 over {fast, slow, very slow, failure} after three warm-ups; (c) BFS over schedules {ReadyCheck,Call,Poll,Drop,Complete(ok|err|panic),Tick} of the real AdaptiveService with in_flight()/limit() compared with the harness's own count of live inner calls in every state".into();
    rep.assumptions = vec![
        "sequentially consistent memory for (a); prompt executor and poll granularity for (c)".into(),
        "'in flight' means: inner calls created and neither resolved, panicked nor dropped (the harness's own log)".into(),
    ];
    for w in ["interleaving_schedules", "config_with_several_final_limits", "readiness_refused_at_limit", "running_call_dropped", "inner_panicked", "limit_adapted", "limit_moved_while_sibling_busy", "two_calls_in_flight"] {
        rep.require_witness(w);
    }
    let lims = lim_configs(tier);
    rep.bounds = json!({"limit_configurations": lims.len(), "service_depth": tier.pick(11, 14)});
    seq::par_configs(&lims, &mut rep, |c, r| check_lim_interleavings(c, tier, r));
    check_lim_sequences(tier, &mut rep);
    for cfg in svc_configs(tier) {
        let opts = Opts { max_depth: tier.pick(11, 14), time_cap: Duration::from_secs(tier.pick(30, 600)), ..Opts::default() };
        let ex = svcx::explore(&cfg, &opts, &mut rep);
        if tier == Tier::Thorough && cfg.vegas {
            svcx::validate_abstraction(&cfg, 6, &ex.fingerprints, ex.depth_completed, &mut rep);
        }
    }
    // thread level: whole calls on OS threads, interleaved at the service's own atomics
    threads::run(tier, &mut rep);
    rep.require_witness("thread_schedules_with_preemption");
    trv_core::finish(rep);
}
