//! C13, thread level for the service's own counters (engine B): whole calls through clones of
//! one real AdaptiveService run on OS threads; scheduling points are the instrumented atomics
//! of the service (in-flight counter) and of the algorithm (limit). When everything has
//! finished the limiter must report zero in flight, whatever the interleaving of the calls'
//! starts and ends; while calls run it never reports more than there are.

use std::future::Future;
use std::sync::Arc;
use std::task::{Context, Poll};
use tower::{Layer, Service};
use tower_resilience_adaptive::{AdaptiveLimiterLayer, AdaptiveService, Aimd};
use trv_core::evidence::{Report, Tier};
use trv_core::ilv::{self, LinCheck, OpFn, Spec};
use trv_core::inner::{InnerErr, Req, Resp};

#[derive(Clone)]
struct ReadyInner;

impl Service<Req> for ReadyInner {
    type Response = Resp;
    type Error = InnerErr;
    type Future = std::future::Ready<Result<Resp, InnerErr>>;
    fn poll_ready(&mut self, _cx: &mut Context<'_>) -> Poll<Result<(), InnerErr>> {
        Poll::Ready(Ok(()))
    }
    fn call(&mut self, req: Req) -> Self::Future {
        // key 1: the inner call fails
        if req.key == 1 {
            std::future::ready(Err(InnerErr { id: req.id, kind: 0 }))
        } else {
            std::future::ready(Ok(Resp { serial: req.id, req: req.id, key: req.key }))
        }
    }
}

pub struct Shared {
    svc: AdaptiveService<ReadyInner, Aimd>,
    threads: usize,
}

#[derive(Clone)]
pub struct TCfg {
    /// per thread: outcome of each of its calls (true = ok, false = inner error)
    pub programs: Vec<Vec<bool>>,
}

impl TCfg {
    pub fn label(&self) -> String {
        format!("adaptive service threads calls_per_thread(ok?)={:?}", self.programs)
    }
    fn spec(&self) -> Spec<Shared, i64> {
        let mk = |ok: bool| -> OpFn<Shared, i64> {
            Arc::new(move |s: &Shared| {
                let mut svc = s.svc.clone();
                let waker = ilv::noop_waker();
                let mut cx = Context::from_waker(&waker);
                match Service::<Req>::poll_ready(&mut svc, &mut cx) {
                    Poll::Ready(Ok(())) => {}
                    _ => return -9,
                }
                let mut fut = Box::pin(svc.call(Req::new(7, if ok { 0 } else { 1 })));
                match fut.as_mut().poll(&mut cx) {
                    Poll::Ready(Ok(_)) => 1,
                    Poll::Ready(Err(_)) => 0,
                    Poll::Pending => -3,
                }
            })
        };
        let n = self.programs.len();
        Spec {
            name: self.label(),
            make: Arc::new(move || {
                // a limit far above the number of threads: readiness is never the question here
                let layer = AdaptiveLimiterLayer::new(Aimd::builder().initial_limit(8).min_limit(8).max_limit(8).build());
                Shared { svc: layer.layer(ReadyInner), threads: n }
            }),
            threads: self.programs.iter().map(|p| p.iter().map(|ok| (format!("call({})", if *ok { "ok" } else { "err" }), mk(*ok))).collect()).collect(),
            install_hook: Arc::new(|| tower_resilience_core::verif::set_yield_hook(Some(Box::new(|op| ilv::yield_point(op))))),
            uninstall_hook: Arc::new(|| tower_resilience_core::verif::set_yield_hook(None)),
            step_check: Arc::new(|s: &Shared| {
                let n = s.svc.in_flight();
                if n > s.threads {
                    Some(format!("in_flight() reports {n} with only {} callers", s.threads))
                } else {
                    None
                }
            }),
            spurious: false,
        }
    }
}

pub fn configs(tier: Tier) -> Vec<TCfg> {
    let mut v = vec![TCfg { programs: vec![vec![true], vec![true]] }, TCfg { programs: vec![vec![true], vec![false]] }];
    if tier == Tier::Thorough {
        v.push(TCfg { programs: vec![vec![true, true], vec![false]] });
        v.push(TCfg { programs: vec![vec![true], vec![true], vec![false]] });
    }
    v
}

fn observe(s: &Shared) -> String {
    format!("in_flight={}", s.svc.in_flight())
}

fn extra(x: &ilv::Execution<i64>, s: &Shared) -> Vec<(String, String)> {
    let mut v = vec![];
    if x.returns.iter().flatten().any(|r| *r < 0) {
        v.push(("call_did_not_complete".to_string(), format!("returns {:?}", x.returns)));
    }
    let n = s.svc.in_flight();
    if n != 0 {
        v.push(("in_flight_not_zero_at_quiescence".to_string(), format!("every call has finished but in_flight() reports {n}")));
    }
    v
}

fn lin<'a>(cfg: &TCfg, spec: &'a Spec<Shared, i64>, tier: Tier) -> LinCheck<'a, Shared, i64> {
    LinCheck {
        property: "C13",
        site: "AdaptiveService_threads",
        label: cfg.label(),
        spec,
        // (three threads: two preemptions; a third runs into the schedule cap)
        bounds: tier.pick(vec![Some(0), Some(1), Some(2)], if cfg.programs.len() >= 3 { vec![Some(0), Some(1), Some(2)] } else { vec![Some(0), Some(1), Some(2), Some(3)] }),
        max_schedules: tier.pick(100_000, 1_000_000),
        observe: &observe,
        extra: &extra,
        linearizable: false,
    }
}

pub fn run(tier: Tier, rep: &mut Report) {
    for cfg in configs(tier) {
        let spec = cfg.spec();
        let c = lin(&cfg, &spec, tier);
        ilv::set_deadline(Some(std::time::Instant::now() + std::time::Duration::from_secs(tier.pick(20, 90))));
        ilv::check_linearizable(&c, rep);
    }
    ilv::set_deadline(None);
}

pub fn replay(label: &str, choices: &[usize], kind: &str) -> Option<bool> {
    let mut all = configs(Tier::Quick);
    all.extend(configs(Tier::Thorough));
    for cfg in all {
        if cfg.label() == label {
            let spec = cfg.spec();
            let c = lin(&cfg, &spec, Tier::Thorough);
            return Some(ilv::replay_schedule(&c, choices, kind));
        }
    }
    None
}

#[allow(dead_code)]
fn _f<F: Future>(_: F) {}
