//! C12 — hedge: bounded attempts, spacing, first success wins, fails only when all failed (engine A).

use serde_json::json;
use std::time::Duration;
use tower::{Layer, Service};
use tower_resilience_hedge::{HedgeError, HedgeLayer};
use trv_core::evidence::{Report, Tier};
use trv_core::inner::{CallStatus, GatedInner, Out, Req};
use trv_core::svcx::{self, Action, Counts, Opts, Scenario, Viol};
use trv_core::world::{drive_ready, Outcome, Phase, World};

trv_core::install_clock_seam!();

#[derive(Clone, Copy, Debug, PartialEq)]
enum Delay {
    Fixed20,
    Immediate,
    /// attempt 1 after 20 ms, attempt 2 after 10 ms
    Dyn20_10,
    /// attempt 1 after 20 ms, attempt 2 at once
    Dyn20_0,
    /// attempt 1 at once, attempt 2 after 20 ms
    Dyn0_20,
    /// a table that differs at every index: f(1)=20, f(2)=30, f(3)=10, f(4)=0 ms (f(3) and f(4)
    /// belong to hedges that max_hedged_attempts <= 3 never starts)
    Dyn20_30_10,
    /// 19.75 ms: a fractional number of milliseconds
    Frac,
    /// 0.9 ms: less than a millisecond (not zero: still latency mode)
    SubMs,
    /// one hedge after 20 ms, then none: f(1)=20 ms, f(k>=2)=Duration::MAX ("never")
    Dyn20Never,
}

/// delay value (ms) standing for Duration::MAX
const NEVER: u64 = u64::MAX / 4;

impl Delay {
    /// configured delay before attempt k (k >= 1), in ms
    fn of(&self, k: usize) -> u64 {
        match self {
            Delay::Fixed20 => 20,
            Delay::Immediate => 0,
            Delay::Dyn20_10 => if k == 1 { 20 } else { 10 },
            Delay::Dyn20_0 => if k == 1 { 20 } else { 0 },
            Delay::Dyn0_20 => if k == 1 { 0 } else { 20 },
            Delay::Dyn20_30_10 => [20, 30, 10, 0][(k - 1).min(3)],
            // virtual instants are whole milliseconds: a gap g satisfies 19.75 ms iff g >= 20
            Delay::Frac => 20,
            // ... and a gap g satisfies 0.9 ms iff g >= 1
            Delay::SubMs => 1,
            Delay::Dyn20Never => if k == 1 { 20 } else { NEVER },
        }
    }
}

struct Hg {
    max: usize,
    delay: Delay,
    max_ticks: usize,
    /// clones of the inner service used for hedges are not ready until the explorer says so
    held_readiness: bool,
    /// the executor may poll the woken call late (up to this many ticks pass first)
    late_ticks: usize,
    /// every delay (and the explorer's time grid) is multiplied by this: 1, or 101 for the
    /// seconds-range configurations (20 ms -> 2.02 s)
    scale: u64,
    /// the listener takes 15 ms (of time passing inside the poll, see clock::burn) when the
    /// FIRST hedge is announced: the next hedge's delay counts from when that hedge was started
    slow_listener: bool,
}

struct X {
    svc: tower_resilience_hedge::Hedge<GatedInner>,
    /// serial order in which attempts completed successfully (by Complete action order)
    first_success: Option<usize>,
    completions: Vec<(usize, Out, u64)>,
    pre_first_success_pending: bool,
}

fn map(r: Result<trv_core::inner::Resp, HedgeError<trv_core::inner::InnerErr>>) -> Outcome {
    match r {
        Ok(r) => Outcome::Ok(r),
        Err(HedgeError::Inner(e)) => Outcome::Inner(e),
        Err(HedgeError::AllAttemptsFailed(e)) => Outcome::Layer(format!("AllAttemptsFailed({})", e.id)),
    }
}

impl Scenario for Hg {
    type X = X;
    fn property(&self) -> &'static str {
        "C12"
    }
    fn label(&self) -> String {
        format!("hedge max_hedged_attempts={} delay={:?}{}", self.max, self.delay, if self.held_readiness { " hedge-clones-not-ready-until-released" } else if self.late_ticks > 0 { " late-polls" } else if self.scale != 1 { " x101" } else if self.slow_listener { " slow-listener-at-first-hedge" } else { "" })
    }
    fn callers(&self) -> usize {
        1
    }
    fn drops_enabled(&self) -> bool {
        false
    }
    fn late_ticks(&self) -> usize {
        self.late_ticks
    }
    fn grid_ms(&self) -> u64 {
        10 * self.scale
    }
    fn init(&self, w: &mut World) -> X {
        let b = HedgeLayer::builder().max_hedged_attempts(self.max);
        // (the configurations with three attempts register a no-op event listener)
        let slow = self.slow_listener;
        let b = if self.max == 3 {
            b.on_event(tower_resilience_core::events::FnListener::new(move |e: &tower_resilience_hedge::HedgeEvent| {
                if slow {
                    if let tower_resilience_hedge::HedgeEvent::HedgeStarted { attempt, .. } = e {
                        if *attempt == 1 {
                            trv_core::clock::burn(Duration::from_millis(15));
                        }
                    }
                }
            }))
        } else {
            b
        };
        let b = match self.delay {
            Delay::Fixed20 => b.delay(Duration::from_millis(20 * self.scale)),
            Delay::Immediate => b.no_delay(),
            Delay::Frac => b.delay(Duration::from_micros(19_750)),
            Delay::SubMs => b.delay(Duration::from_micros(900)),
            d => {
                let scale = self.scale;
                let max = self.max;
                // a delay table with one entry per hedge that exists (hedges 1..max-1): asking
                // it about any other hedge is an error of the layer, and panics here
                b.delay_fn(move |k| {
                    assert!(k >= 1 && k < max.max(1), "delay function asked for hedge {k}, but only hedges 1..{} exist", max.max(1));
                    if d.of(k) == NEVER {
                        Duration::MAX
                    } else {
                        Duration::from_millis(d.of(k) * scale)
                    }
                })
            }
        };
        let layer = b.build();
        w.inner.lock().unwrap().hold_late_ready = self.held_readiness;
        let svc = layer.clone().layer(GatedInner::new(w.inner.clone()));
        X { svc, first_success: None, completions: vec![], pre_first_success_pending: false }
    }
    fn arrive(&self, w: &mut World, x: &mut X, c: usize, _v: u8) {
        let mut s = x.svc.clone();
        drive_ready::<_, Req>(&mut s, 4).expect("ready").ok();
        let req = Req::new(c as u32, 0);
        let f = s.call(req.clone());
        w.set_arrived(c, req, Box::pin(async move { map(f.await) }));
    }
    fn outs(&self) -> Vec<Out> {
        vec![Out::Ok, Out::Err(0)]
    }
    fn ctl_actions(&self, w: &World, _x: &X) -> Vec<u8> {
        // Ctl(i): held clone i becomes ready; Ctl(100+i): it reports a readiness error instead
        let g = w.inner.lock().unwrap();
        let mut v: Vec<u8> = g.held_unreleased().into_iter().map(|i| i as u8).collect();
        if g.held.iter().all(|h| !h.fail) {
            v.extend(g.held_unreleased().into_iter().map(|i| 100 + i as u8));
        }
        v
    }
    fn apply_ctl(&self, w: &mut World, _x: &mut X, ctl: u8) {
        if ctl >= 100 {
            w.release_ready_err(ctl as usize - 100);
        } else {
            w.release_ready(ctl as usize);
        }
    }
    fn allow(&self, _w: &World, _x: &X, h: &[Action], a: &Action) -> bool {
        let c = Counts::of(h);
        match a {
            Action::Tick => c.ticks < self.max_ticks,
            _ => true,
        }
    }
    fn fingerprint(&self, w: &World, x: &X) -> String {
        // the state of held clones (still held / released as ready / released with an error,
        // error already reported) decides which release actions remain and what they do
        let g = w.inner.lock().unwrap();
        let held: Vec<(bool, bool, bool)> = g.held.iter().map(|h| (h.released, h.fail, h.fail_reported)).collect();
        format!("{:?}|{:?}", x.completions, held)
    }
    fn before(&self, w: &World, x: &mut X, a: &Action) {
        if let Action::Complete(k, o) = a {
            x.completions.push((*k as usize, *o, w.now_ms()));
            if *o == Out::Ok && x.first_success.is_none() {
                x.first_success = Some(*k as usize);
            }
        }
        x.pre_first_success_pending = x.first_success.is_some();
    }
    fn after(&self, w: &mut World, x: &mut X, a: &Action, out: &mut Vec<Viol>) {
        let site = match self.delay {
            Delay::Immediate => "parallel_mode",
            Delay::Dyn0_20 => "delay_fn_zero_first",
            _ => "latency_mode",
        };
        let g = w.inner.lock().unwrap();
        let n = g.calls.len();
        // attempts that ended before reaching the inner service: their instance's readiness failed
        let rf = g.held_failed();
        if n > self.max {
            out.push(Viol::new("too_many_attempts", site, format!("{n} attempts started with max_hedged_attempts={}", self.max)));
        }
        // (with held readiness the instant of the inner call is not the instant the layer
        // started the attempt, so spacing is judged in the other configurations only)
        for k in 1..if self.held_readiness { 0 } else { n } {
            let gap = g.calls[k].start_ms - g.calls[k - 1].start_ms;
            let need = self.delay.of(k).saturating_mul(self.scale);
            if gap < need {
                out.push(Viol::new("hedge_too_early", site, format!("attempt {k} started {gap}ms after attempt {} (configured delay {need}ms)", k - 1)));
            }
        }
        if self.delay == Delay::Immediate && !self.held_readiness && n > 0 && n < self.max && w.callers[0].polls > 0 {
            out.push(Viol::new("parallel_not_all_at_once", site, format!("parallel mode started only {n} of {} attempts at the first poll", self.max)));
        }
        let statuses: Vec<CallStatus> = g.calls.iter().map(|k| k.status.clone()).collect();
        let failed = statuses.iter().filter(|s| matches!(s, CallStatus::Err(_))).count();
        let first_ok: Option<trv_core::inner::Resp> = x.first_success.and_then(|k| match &statuses.get(k) {
            Some(CallStatus::Ok(r)) => Some(r.clone()),
            _ => None,
        });
        drop(g);
        let cl = &w.callers[0];
        match &cl.phase {
            Phase::Done(Outcome::Layer(t)) if t.starts_with("AllAttemptsFailed") => {
                if n + rf < self.max || failed < n {
                    out.push(Viol::new(
                        "premature_all_failed",
                        site,
                        format!("all-attempts-failed reported with {n} of {} attempts started and {failed} of them failed (statuses {:?})", self.max, statuses),
                    ));
                }
            }
            Phase::Done(Outcome::Ok(r)) => {
                // must be the first successful attempt's payload
                if let Some(k) = x.first_success {
                    let want = match &statuses[k] {
                        CallStatus::Ok(r) => Some(r.clone()),
                        _ => None,
                    };
                    if want.as_ref() != Some(r) {
                        out.push(Viol::new("not_first_success", site, format!("returned {:?} but the first successful attempt was #{k} with {:?}", r, want)));
                    }
                } else {
                    out.push(Viol::new("success_without_successful_attempt", site, format!("returned {:?} though no attempt succeeded", r)));
                }
            }
            Phase::Done(Outcome::Inner(e)) => {
                out.push(Viol::new("inner_error_returned", site, format!("returned the plain inner error {:?} while attempts remain (statuses {:?})", e, statuses)));
            }
            Phase::Live => {
                if let Action::Poll(_) = a {
                    // polled and still pending
                    if first_ok.is_some() && x.pre_first_success_pending {
                        out.push(Viol::new("success_not_delivered", site, "an attempt has succeeded and its result reached the hedge, but the poll returned Pending".to_string()));
                    }
                    if n + rf == self.max && failed == n {
                        out.push(Viol::new("pending_after_all_failed", site, "all attempts were started and failed, but the poll returned Pending".to_string()));
                    }
                } else if let Action::Complete(_, Out::Ok) = a {
                    if !w.needs_poll(0) && cl.polls > 0 {
                        out.push(Viol::new("not_woken_on_success", site, "an attempt succeeded but the caller was not woken".to_string()));
                    }
                }
            }
            _ => {}
        }
    }
    fn witnesses(&self, w: &World, x: &X, _h: &[Action]) -> Vec<&'static str> {
        let mut v = vec![];
        let g = w.inner.lock().unwrap();
        let n = g.calls.len();
        if n >= 2 && g.calls[1].start_ms > g.calls[0].start_ms {
            v.push("hedge_started_after_delay");
        }
        if n >= 2 && g.calls[1].start_ms == g.calls[0].start_ms {
            v.push("attempts_started_at_one_instant");
        }
        // a later attempt failed while an earlier one is still running
        if g.calls.iter().any(|k| matches!(k.status, CallStatus::Err(_)) && g.calls.iter().any(|j| j.k < k.k && j.status == CallStatus::Pending)) && n == self.max {
            v.push("hedge_failed_while_primary_running");
        }
        // an attempt failed at the very instant a later one started
        for (k, _o, t) in &x.completions {
            if g.calls.iter().any(|j| j.k > *k && j.start_ms == *t) {
                v.push("completion_at_hedge_start_instant");
            }
        }
        if matches!(&w.callers[0].phase, Phase::Done(Outcome::Layer(_))) {
            v.push("all_attempts_failed");
        }
        if !g.held_unreleased().is_empty() && matches!(&w.callers[0].phase, Phase::Done(Outcome::Ok(_))) {
            v.push("success_while_hedge_clone_not_ready");
        }
        if matches!(&w.callers[0].phase, Phase::Done(Outcome::Ok(r)) if g.calls.iter().any(|k| k.k >= 1 && matches!(&k.status, CallStatus::Ok(r2) if r2 == r))) {
            v.push("hedge_won");
        }
        if g.held_failed() > 0 {
            v.push("hedge_clone_reported_a_readiness_error");
            if matches!(&w.callers[0].phase, Phase::Done(Outcome::Layer(_))) {
                v.push("all_failed_with_a_readiness_error_among_the_attempts");
            }
        }
        v.dedup();
        v
    }
    fn epilogue(&self, w: &mut World, x: &mut X, out: &mut Vec<Viol>) -> String {
        let site = "hedge";
        if w.callers[0].phase == Phase::NotArrived {
            return "-".into();
        }
        // every held clone becomes ready now
        let held = w.inner.lock().unwrap().held_unreleased();
        for i in held {
            w.release_ready(i);
        }
        // failing drain: every attempt that can still be completed fails; the call must end
        // with all-attempts-failed after exactly max attempts
        for _ in 0..16 {
            let held = w.inner.lock().unwrap().held_unreleased();
            for i in held {
                w.release_ready(i);
            }
            let gateable = w.inner.lock().unwrap().gateable();
            for k in gateable {
                self.before(w, x, &Action::Complete(k as u8, Out::Err(0)));
                w.complete(k, Out::Err(0));
            }
            for _ in 0..4 {
                if w.needs_poll(0) {
                    w.poll_caller(0);
                }
            }
            if !w.callers[0].is_live() {
                break;
            }
            w.tick();
        }
        if w.callers[0].is_live() && self.delay == Delay::Dyn20Never && self.max == 3 {
            // two attempts started and failed, the third is never due: the call keeps waiting
            let g = w.inner.lock().unwrap();
            let n = g.calls.len();
            let failed = g.calls.iter().filter(|k| matches!(k.status, CallStatus::Err(_))).count();
            drop(g);
            if n == 2 && failed == 2 {
                return "waiting-for-a-hedge-that-is-never-due".into();
            }
        }
        if w.callers[0].is_live() {
            out.push(Viol::new("never_resolves", site, "the hedged call is still pending after every attempt failed".to_string()));
            return "stuck".into();
        }
        let mut v = vec![];
        self.after(w, x, &Action::Tick, &mut v);
        out.extend(v);
        match &w.callers[0].phase {
            // which attempt's error all-attempts-failed carries is not specified by the property
            Phase::Done(Outcome::Layer(t)) if t.starts_with("AllAttemptsFailed") => "layer:AllAttemptsFailed".into(),
            Phase::Done(o) => o.tag(),
            p => format!("{p:?}"),
        }
    }
}

fn configs(tier: Tier) -> Vec<Hg> {
    let mut v = vec![];
    for max in [1usize, 2, 3] {
        for delay in [Delay::Fixed20, Delay::Immediate, Delay::Dyn20_10, Delay::Dyn20_0, Delay::Dyn0_20, Delay::Dyn20_30_10, Delay::Frac, Delay::SubMs] {
            if max < 3 && matches!(delay, Delay::Dyn20_30_10) || max != 2 && matches!(delay, Delay::Frac) || max != 3 && matches!(delay, Delay::SubMs) {
                continue;
            }
            v.push(Hg { max, delay, max_ticks: tier.pick(6, 10), held_readiness: false, late_ticks: 0, scale: 1, slow_listener: false });
        }
        if max == 3 {
            // a slow listener at the start of the first hedge
            for delay in [Delay::Fixed20, Delay::Dyn20_10] {
                v.push(Hg { max, delay, max_ticks: tier.pick(6, 9), held_readiness: false, late_ticks: 0, scale: 1, slow_listener: true });
            }
        }
        if max == 3 {
            // "one hedge, then none": the delay of the second hedge is Duration::MAX
            v.push(Hg { max, delay: Delay::Dyn20Never, max_ticks: tier.pick(5, 8), held_readiness: false, late_ticks: 0, scale: 1, slow_listener: false });
        }
        if max == 3 {
            // a late executor: the woken call is polled up to two ticks late
            for delay in [Delay::Fixed20, Delay::Dyn20_10] {
                v.push(Hg { max, delay, max_ticks: tier.pick(7, 10), held_readiness: false, late_ticks: tier.pick(2, 3), scale: 1, slow_listener: false });
            }
        }
        if max == 3 {
            // delays in the seconds range (2.02 s, 3.03 s, 1.01 s)
            for delay in [Delay::Fixed20, Delay::Dyn20_30_10] {
                v.push(Hg { max, delay, max_ticks: tier.pick(6, 8), held_readiness: false, late_ticks: 0, scale: 101, slow_listener: false });
            }
        }
        if max >= 2 {
            for delay in [Delay::Fixed20, Delay::Immediate] {
                v.push(Hg { max, delay, max_ticks: tier.pick(5, 8), held_readiness: true, late_ticks: 0, scale: 1, slow_listener: false });
            }
        }
    }
    v
}

/// The call future is made under one runtime and driven by another (the first stays alive,
/// nobody drives it): the attempts belong to the runtime that polls the call. Latency and
/// parallel mode, every attempt answering at once.
fn two_runtimes(rep: &mut Report) {
    for parallel in [false, true] {
        let wa = World::new(0, 10, trv_core::inner::Mode::Script, 1);
        wa.inner.lock().unwrap().default_plan = trv_core::inner::Plan::now(Out::Ok);
        let state = wa.inner.clone();
        let b = HedgeLayer::builder().max_hedged_attempts(2);
        let b = if parallel { b.no_delay() } else { b.delay(Duration::from_millis(20)) };
        let mut svc = b.build().layer(GatedInner::new(wa.inner.clone()));
        let made = std::panic::catch_unwind(std::panic::AssertUnwindSafe(|| {
            drive_ready::<_, Req>(&mut svc, 4).expect("ready").ok();
            tower::Service::call(&mut svc, Req::new(1, 0))
        }));
        let outcome = match made {
            Err(_) => "call() panicked".to_string(),
            Ok(fut) => {
                let wb = World::new(0, 10, trv_core::inner::Mode::Script, 1);
                let r = std::panic::catch_unwind(std::panic::AssertUnwindSafe(|| {
                    wb.block_on(async {
                        match tokio::time::timeout(Duration::from_secs(3600), fut).await {
                            Ok(Ok(_)) => "ok".to_string(),
                            Ok(Err(_)) => "error".to_string(),
                            Err(_) => "never resolved".to_string(),
                        }
                    })
                }));
                r.unwrap_or_else(|_| "panicked".to_string())
            }
        };
        let calls = state.lock().unwrap().calls.len();
        rep.evaluations += 1;
        rep.witness("call_made_under_one_runtime_driven_by_another", 1);
        if outcome != "ok" || calls == 0 {
            rep.violations.push(trv_core::evidence::Violation {
                property: "C12".into(),
                kind: "attempts_on_the_wrong_runtime".into(),
                site: "hedge".into(),
                config: format!("hedge max_hedged_attempts=2 {} call() under runtime A, future driven by runtime B", if parallel { "parallel" } else { "delay=20ms" }),
                history: serde_json::json!(["call() under runtime A", "future awaited under runtime B"]),
                detail: format!("every attempt would succeed at once; the call: {outcome}; inner calls {calls}"),
                log: vec![],
            });
        }
    }
}

fn main() {
    trv_core::startup();
    let cli = trv_core::parse_cli();
    if cli.property != "C12" {
        eprintln!("p-hedge serves C12");
        std::process::exit(2);
    }
    if let Some(p) = cli.replay {
        let mut c = configs(Tier::Quick);
        c.extend(configs(Tier::Thorough));
        svcx::replay_main("C12", &p, c);
    }
    let tier = cli.tier;
    let mut rep = Report::new("C12", tier, "model_checking");
    rep.rule = "BFS over action histories {Arrive,Poll,Complete(k, ok|err),Tick} of one hedged call on the real Hedge service with gated attempts (tokio-spawned attempt tasks run when the explorer yields), max_hedged_attempts 1-3, fixed / immediate / per-attempt delays; every state additionally drained with all remaining attempts failing".into();
    rep.assumptions = vec![
        "prompt executor; attempt tasks are run by tokio's FIFO queue whenever the explorer yields; their relative order is controlled through the gates".into(),
    ];
    for w in ["success_while_hedge_clone_not_ready", "hedge_started_after_delay", "attempts_started_at_one_instant", "hedge_failed_while_primary_running", "completion_at_hedge_start_instant", "all_attempts_failed", "hedge_won", "hedge_clone_reported_a_readiness_error", "all_failed_with_a_readiness_error_among_the_attempts"] {
        rep.require_witness(w);
    }
    let depth = tier.pick(12, 20);
    rep.bounds = json!({"depth": depth, "max_ticks": tier.pick(6,10), "grid_ms": 10});
    for cfg in configs(tier) {
        let opts = Opts { max_depth: depth, time_cap: Duration::from_secs(tier.pick(30, 600)), ..Opts::default() };
        let ex = svcx::explore(&cfg, &opts, &mut rep);
        if tier == Tier::Thorough && cfg.max == 2 {
            svcx::validate_abstraction(&cfg, 7, &ex.fingerprints, ex.depth_completed, &mut rep);
        }
    }
    two_runtimes(&mut rep);
    trv_core::finish(rep);
}
