//! C03 / C04 / C09 — circuit breaker.

mod c03;
mod c04;
mod c09;
mod handle;

use handle::CbCfg;
use serde_json::json;
use std::time::Duration;
use trv_core::evidence::{Report, Tier};
use trv_core::seq::{self, SeqScenario};
use trv_core::svcx::{self, Opts};

trv_core::install_clock_seam!();

fn base_cfg(time_based: bool) -> CbCfg {
    CbCfg {
        time_based,
        window_size: 2,
        window_ms: 100,
        threshold: 0.5,
        min_calls: Some(2),
        wait_ms: 30,
        wait_shave_us: 0,
        permitted: 1,
        slow_ms: None,
        slow_rate: 1.0,
        custom_classifier: false,
        fallback: false,
        fallback_gated: false,
        classifier_first: false,
        preset_start: false,
        latency_inside_call: false,
    }
}

fn c03_configs(tier: Tier) -> Vec<c03::C03> {
    let mut v = vec![];
    for time_based in [false, true] {
        for fallback in [false, true] {
            for slow in [false, true] {
                for size in tier.pick(vec![1usize], vec![1usize, 2]) {
                    let mut cfg = base_cfg(time_based);
                    cfg.fallback = fallback;
                    cfg.window_size = size;
                    cfg.min_calls = Some(size);
                    if slow {
                        cfg.slow_ms = Some(20);
                        cfg.slow_rate = 0.5;
                    }
                    v.push(c03::C03 { cfg, callers: tier.pick(3, 4), max_ticks: tier.pick(4, 5), max_drops: 1, max_force: 1, grid: 10, nested: 0, health_trigger: false });
                }
            }
            // opened through the health-check integration (from a spawned task)
            {
                let mut cfg = base_cfg(time_based);
                cfg.fallback = fallback;
                v.push(c03::C03 { cfg, callers: 3, max_ticks: tier.pick(2, 3), max_drops: 0, max_force: 0, grid: 10, nested: 0, health_trigger: true });
            }
            if fallback {
                // the fallback's future stays pending until released: an open call must still
                // be answered (its fallback started) at once, and nobody else may be held up
                let mut cfg = base_cfg(time_based);
                cfg.fallback = true;
                cfg.fallback_gated = true;
                cfg.window_size = 1;
                cfg.min_calls = Some(1);
                v.push(c03::C03 { cfg, callers: 3, max_ticks: tier.pick(2, 4), max_drops: 0, max_force: 1, grid: 10, nested: 0, health_trigger: false });
            }
            // configured from the fast_fail() preset, every setting overridden afterwards
            let mut cfg = base_cfg(time_based);
            cfg.fallback = fallback;
            cfg.window_size = 1;
            cfg.min_calls = Some(1);
            cfg.preset_start = true;
            v.push(c03::C03 { cfg, callers: 3, max_ticks: 3, max_drops: 0, max_force: 1, grid: 10, nested: 0, health_trigger: false });
            // a wait below one millisecond (0.9 ms): on whole-millisecond instants the shield
            // covers exactly the instant of the opening
            let mut cfg = base_cfg(time_based);
            cfg.fallback = fallback;
            cfg.window_size = 1;
            cfg.min_calls = Some(1);
            cfg.wait_ms = 1;
            cfg.wait_shave_us = 100;
            v.push(c03::C03 { cfg, callers: 3, max_ticks: 2, max_drops: 0, max_force: 1, grid: 1, nested: 0, health_trigger: false });
            // emulated lock contention, including a caller polled from inside the announcement
            // of the opening
            let mut cfg = base_cfg(time_based);
            cfg.fallback = fallback;
            cfg.window_size = 1;
            cfg.min_calls = Some(1);
            v.push(c03::C03 { cfg, callers: 3, max_ticks: 1, max_drops: 0, max_force: 1, grid: 10, nested: tier.pick(1, 2), health_trigger: false });
            // "stay open until closed by hand": wait_duration_in_open = Duration::MAX
            let mut cfg = base_cfg(time_based);
            cfg.fallback = fallback;
            cfg.window_size = 1;
            cfg.min_calls = Some(1);
            cfg.wait_ms = handle::WAIT_FOREVER;
            v.push(c03::C03 { cfg, callers: 3, max_ticks: tier.pick(2, 3), max_drops: 0, max_force: 1, grid: 10, nested: 0, health_trigger: false });
            // the same with everything in the seconds range: wait 1.01 s, time window 10.1 s
            let mut cfg = base_cfg(time_based);
            cfg.fallback = fallback;
            cfg.window_size = 1;
            cfg.min_calls = Some(1);
            cfg.wait_ms = 1010;
            cfg.window_ms = 10_100;
            v.push(c03::C03 { cfg, callers: 3, max_ticks: tier.pick(4, 5), max_drops: 0, max_force: 1, grid: 1010, nested: 0, health_trigger: false });
            // a short wait (one grid step): open, wait, trial, the trial outlasts another wait
            // and fails, re-open - the shield must start again from the re-opening - all
            // within the depth bound
            let mut cfg = base_cfg(time_based);
            cfg.fallback = fallback;
            cfg.window_size = 1;
            cfg.min_calls = Some(1);
            cfg.wait_ms = 10;
            v.push(c03::C03 { cfg, callers: 3, max_ticks: tier.pick(4, 5), max_drops: 0, max_force: 1, grid: 10, nested: 0, health_trigger: false });
        }
    }
    v
}

fn c09_configs(tier: Tier) -> Vec<c09::C09> {
    let mut v = vec![];
    for time_based in [false, true] {
        for permitted in [1usize, 2] {
            let mut cfg = base_cfg(time_based);
            cfg.permitted = permitted;
            v.push(c09::C09 { cfg: cfg.clone(), callers: tier.pick(3, 4).max(permitted + 2), max_ticks: 2, max_drops: 1, prepared: true, straggler: false, nested: 0, grid: 10, max_force: 0, late_ticks: 0 });
            if time_based && permitted == 2 {
                // a half-open period that lasts longer than the (short) time window
                let mut short = cfg.clone();
                short.window_ms = 10;
                v.push(c09::C09 { cfg: short, callers: 3, max_ticks: 2, max_drops: 0, prepared: true, straggler: false, nested: 0, grid: 10, max_force: 0, late_ticks: 0 });
            }
            if permitted == 2 {
                // callers 0,1 are used by the prelude; 2,3,4 arrive in the second half-open period
                v.push(c09::C09 { cfg: cfg.clone(), callers: 5, max_ticks: 0, max_drops: 1, prepared: true, straggler: true, nested: 0, grid: 10, max_force: 0, late_ticks: 0 });
            }
            // configured from the fast_fail() preset, every setting overridden afterwards
            {
                let mut f = cfg.clone();
                f.preset_start = true;
                v.push(c09::C09 { cfg: f, callers: permitted + 2, max_ticks: 2, max_drops: 0, prepared: true, straggler: false, nested: 0, grid: 10, max_force: 0, late_ticks: 0 });
            }
            if permitted == 1 {
                // a closed start: callers may have been handed their call futures while the breaker
                // was still closed and poll them for the first time when it is half-open
                let mut f = cfg.clone();
                f.window_size = 1;
                f.min_calls = Some(1);
                f.wait_ms = 10;
                v.push(c09::C09 { cfg: f, callers: 3, max_ticks: 1, max_drops: 0, prepared: false, straggler: false, nested: 0, grid: 10, max_force: 0, late_ticks: 1 });
            }
            if time_based && permitted == 1 {
                // three permitted trials, a half-open period longer than the (10 ms) time window:
                // the first trial's record has aged out of the window while two more are running
                let mut f = cfg.clone();
                f.permitted = 3;
                f.window_ms = 10;
                v.push(c09::C09 { cfg: f, callers: 4, max_ticks: 2, max_drops: 0, prepared: true, straggler: false, nested: 0, grid: 10, max_force: 0, late_ticks: 0 });
            }
            // the breaker converted with with_fallback(..): callers beyond the limit are answered by
            // the fallback and must not reach the inner service either
            {
                let mut f = cfg.clone();
                f.fallback = true;
                v.push(c09::C09 { cfg: f, callers: permitted + 2, max_ticks: 2, max_drops: 1, prepared: true, straggler: false, nested: 0, grid: 10, max_force: 0, late_ticks: 0 });
            }
            // the breaker is forced open again while trial calls of a half-open period are still
            // running; the wait is one grid step
            {
                let mut f = cfg.clone();
                f.wait_ms = 10;
                v.push(c09::C09 { cfg: f, callers: permitted + 2, max_ticks: 2, max_drops: 0, prepared: true, straggler: false, nested: 0, grid: 10, max_force: 1, late_ticks: 0 });
            }
            // a custom failure classifier (a type-changing builder call that copies every other
            // setting by hand), installed after and before the other settings
            for classifier_first in [false, true] {
                let mut cc = cfg.clone();
                cc.custom_classifier = true;
                cc.classifier_first = classifier_first;
                v.push(c09::C09 { cfg: cc, callers: permitted + 2, max_ticks: 1, max_drops: 0, prepared: true, straggler: false, nested: 0, grid: 10, max_force: 0, late_ticks: 0 });
            }
            if permitted == 2 {
                // everything in the seconds range: wait 3.03 s, time window 10.1 s
                let mut sec = cfg.clone();
                sec.wait_ms = 3030;
                sec.window_ms = 10_100;
                v.push(c09::C09 { cfg: sec, callers: 4, max_ticks: 2, max_drops: 0, prepared: true, straggler: false, nested: 0, grid: 1010, max_force: 0, late_ticks: 0 });
            }
            // emulated lock contention: a caller is polled from inside another caller's critical
            // section (admission, outcome recording), as a second thread reaching the lock would be
            v.push(c09::C09 { cfg: cfg.clone(), callers: permitted + 2, max_ticks: 1, max_drops: 0, prepared: true, straggler: false, nested: tier.pick(1, 2), grid: 10, max_force: 0, late_ticks: 0 });
            if tier == Tier::Thorough {
                let mut cfg2 = cfg.clone();
                cfg2.window_size = 1;
                cfg2.min_calls = Some(1);
                v.push(c09::C09 { cfg: cfg2, callers: permitted + 2, max_ticks: 4, max_drops: 1, prepared: false, straggler: false, nested: 0, grid: 10, max_force: 0, late_ticks: 0 });
            }
        }
    }
    v
}

fn main() {
    trv_core::startup();
    let cli = trv_core::parse_cli();
    match cli.property.as_str() {
        "C03" => {
            if let Some(p) = cli.replay {
                let mut c = c03_configs(Tier::Quick);
                c.extend(c03_configs(Tier::Thorough));
                svcx::replay_main("C03", &p, c);
            }
            let tier = cli.tier;
            let mut rep = Report::new("C03", tier, "model_checking");
            rep.rule = "BFS over action histories {Arrive,Poll,Drop,Complete(ok|err),Tick,ForceOpen} of the real CircuitBreaker (with and without fallback) under virtual time; before every action the lock-free state and the transition log are sampled, after it the inner call log is inspected".into();
            rep.assumptions = vec!["prompt executor; interleaving granularity is one Future::poll (state is behind a tokio Mutex never held across an await)".into()];
            for w in ["rejected_while_open", "call_in_flight_while_open", "opened_by_force_open", "opened_by_trigger_unhealthy", "opened_by_recorded_outcomes", "went_half_open_after_wait", "reopened_by_a_failed_trial", "fallback_pending_while_others_are_served"] {
                rep.require_witness(w);
            }
            let depth = tier.pick(10, 13);
            rep.bounds = json!({"depth": depth, "callers": tier.pick(3,4), "wait_ms": [30, 10], "grid_ms": 10});
            for cfg in c03_configs(tier) {
                let opts = Opts { max_depth: depth, time_cap: Duration::from_secs(tier.pick(30, 600)), ..Opts::default() };
                let ex = svcx::explore(&cfg, &opts, &mut rep);
                if tier == Tier::Thorough && cfg.cfg.window_size == 1 {
                    svcx::validate_abstraction(&cfg, 6, &ex.fingerprints, ex.depth_completed, &mut rep);
                }
            }
            trv_core::finish(rep);
        }
        "C09" => {
            if let Some(p) = cli.replay {
                let mut c = c09_configs(Tier::Quick);
                c.extend(c09_configs(Tier::Thorough));
                svcx::replay_main("C09", &p, c);
            }
            let tier = cli.tier;
            let mut rep = Report::new("C09", tier, "model_checking");
            rep.rule = "BFS over action histories {Arrive,Poll,Drop,Complete(ok|err),Tick} of the real CircuitBreaker started half-open-ready (forced open, wait elapsed) or closed; per half-open period (from the transition log) the inner calls started are counted".into();
            rep.assumptions = vec!["prompt executor; interleaving granularity is one Future::poll".into()];
            for w in ["rejected_beyond_permitted", "trial_call_in_flight", "two_callers_arrive_while_half_open", "closed_after_trials", "reopened_after_failed_trial", "trial_call_cancelled", "caller_polled_inside_another_callers_critical_section"] {
                rep.require_witness(w);
            }
            let depth = tier.pick(12, 14);
            rep.bounds = json!({"depth": depth, "callers": "permitted+2 .. 4", "wait_ms": 30});
            for cfg in c09_configs(tier) {
                let opts = Opts { max_depth: depth, time_cap: Duration::from_secs(tier.pick(30, 600)), ..Opts::default() };
                let ex = svcx::explore(&cfg, &opts, &mut rep);
                if tier == Tier::Thorough && cfg.prepared {
                    svcx::validate_abstraction(&cfg, 6, &ex.fingerprints, ex.depth_completed, &mut rep);
                }
            }
            trv_core::finish(rep);
        }
        "C04" => {
            if let Some(p) = cli.replay {
                let mut c: Vec<c04::C04> = c04::grid(false).into_iter().map(|cfg| c04::C04 { cfg }).collect();
                c.extend(c04::grid(true).into_iter().map(|cfg| c04::C04 { cfg }));
                seq::replay_seq_main("C04", &p, c);
            }
            let tier = cli.tier;
            let mut rep = Report::new("C04", tier, "model_checking");
            rep.rule = "BFS over sequential histories {success, failure, slow success, slow failure, non-failure error, waits (<wait, =wait, >window), force_open, force_closed, reset} on the real breaker with a set-valued reference model of the documented machine in lock-step; dedup on (model candidates, metrics snapshot)".into();
            rep.assumptions = vec![
                "points the documentation leaves open (exact-boundary ages, whether minimum_number_of_calls counts expired calls, repeated force_open/force_closed) are set-valued: an implementation consistent with one fixed choice is accepted".into(),
            ];
            for w in ["opened_or_open_after_call", "half_open_after_call", "call_rejected", "interpretation_pruned"] {
                rep.require_witness(w);
            }
            let depth = tier.pick(6, 8);
            let grid = c04::grid(tier == Tier::Thorough);
            rep.bounds = json!({"depth": depth, "configurations": grid.len()});
            let scns: Vec<c04::C04> = grid.into_iter().map(|cfg| c04::C04 { cfg }).collect();
            seq::par_configs(&scns, &mut rep, |s, r| {
                let st = seq::explore_seq(s, depth, true, r);
                let _ = st;
            });
            // abstraction cross-check: no-dedup enumeration to a smaller depth on a few configurations
            if tier == Tier::Thorough {
                let few: Vec<&c04::C04> = scns.iter().step_by(37).collect();
                let mut scratch = Report::new("C04", tier, "model_checking");
                let d0 = 4;
                let mut mismatches = 0;
                for s in few.iter() {
                    let nd = seq::explore_seq(*s, d0, false, &mut scratch);
                    let dd = seq::explore_seq(*s, d0, true, &mut scratch);
                    if nd.keys != dd.keys {
                        mismatches += 1;
                        rep.machinery.push(format!("{}: dedup and no-dedup runs reach different key sets", s.label()));
                    }
                }
                rep.extra.insert("abstraction_validation".into(), json!({"configs": few.len(), "depth": d0, "mismatches": mismatches}));
            }
            trv_core::finish(rep);
        }
        p => {
            eprintln!("p-circuitbreaker serves C03, C04, C09, not {p}");
            std::process::exit(2);
        }
    }
}
