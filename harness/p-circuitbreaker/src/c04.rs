//! C04 — the breaker follows its documented state machine (engine C: history BFS against a
//! set-valued reference model run in lock-step with the real breaker).

use crate::handle::{build, CbCfg};
use std::collections::VecDeque;
use tower_resilience_circuitbreaker::CircuitState;
use trv_core::inner::{Mode, Out, Plan, Req};
use trv_core::seq::{SeqOut, SeqScenario};
use trv_core::svcx::Viol;
use trv_core::world::{Outcome, World};

pub const SLOW_THR: u64 = 10;
pub const SLOW_LAT: u64 = 20;

#[derive(Clone, Debug, PartialEq, Eq, PartialOrd, Ord)]
enum Op {
    /// inner outcome: ok?, error kind, latency ms
    Call { ok: bool, kind: u8, lat: u64 },
    Wait(u64),
    ForceOpen,
    ForceClosed,
    Reset,
}

/// Points the documentation leaves open; a candidate model fixes one choice for the whole history.
#[derive(Clone, Copy, Debug, PartialEq, Eq, PartialOrd, Ord, Hash)]
struct Interp {
    /// minimum_number_of_calls counts all calls recorded since the window was emptied
    /// (true) or only those currently in the window (false)
    min_cumulative: bool,
    /// a time-based record whose age equals the window duration is already expired
    expiry_inclusive: bool,
    /// a call arriving exactly wait_duration_in_open after opening is a trial call
    open_inclusive: bool,
    /// force_open while already open restarts the open timer
    force_open_restarts: bool,
    /// force_closed while already closed empties the window. Not an open point: only `reset`
    /// is documented to empty the window, and a breaker whose window can be wiped by a
    /// repeated override (or by a health trigger calling it) does not open "exactly when the
    /// rate over the sliding window reaches its threshold". Always false; kept as a field so
    /// that the candidate key keeps its shape.
    force_closed_clears: bool,
}

#[derive(Clone, Debug, PartialEq, Eq, PartialOrd, Ord)]
enum MState {
    Closed,
    Open { since: u64 },
    HalfOpen { succ: usize },
}

#[derive(Clone, Debug, PartialEq, Eq, PartialOrd, Ord)]
struct Model {
    interp: Interp,
    st: MState,
    /// count-based: last N outcomes (fail, slow)
    ring: VecDeque<(bool, bool)>,
    /// time-based: (timestamp, fail, slow)
    recs: Vec<(u64, bool, bool)>,
    recorded: usize,
}

impl Model {
    fn new(interp: Interp) -> Model {
        Model { interp, st: MState::Closed, ring: VecDeque::new(), recs: vec![], recorded: 0 }
    }
    fn clear(&mut self) {
        self.ring.clear();
        self.recs.clear();
        self.recorded = 0;
    }
    fn state(&self) -> CircuitState {
        match self.st {
            MState::Closed => CircuitState::Closed,
            MState::Open { .. } => CircuitState::Open,
            MState::HalfOpen { .. } => CircuitState::HalfOpen,
        }
    }
    fn expire(&mut self, cfg: &CbCfg, now: u64) {
        let inc = self.interp.expiry_inclusive;
        self.recs.retain(|(ts, _, _)| {
            let age = now - ts;
            age < cfg.window_ms || (age == cfg.window_ms && !inc)
        });
    }
    /// returns whether the call is admitted (reaches the inner service)
    fn admit(&mut self, cfg: &CbCfg, now: u64) -> bool {
        match self.st.clone() {
            MState::Closed => true,
            MState::Open { since } => {
                let el = now - since;
                if el > cfg.wait_ms || (el == cfg.wait_ms && self.interp.open_inclusive) {
                    self.st = MState::HalfOpen { succ: 0 };
                    self.clear();
                    true
                } else {
                    false
                }
            }
            MState::HalfOpen { .. } => true,
        }
    }
    fn record(&mut self, cfg: &CbCfg, now: u64, fail: bool, slow: bool) {
        match self.st.clone() {
            MState::Closed => {
                self.recorded += 1;
                let (n, fails, slows) = if cfg.time_based {
                    self.expire(cfg, now);
                    self.recs.push((now, fail, slow));
                    (self.recs.len(), self.recs.iter().filter(|r| r.1).count(), self.recs.iter().filter(|r| r.2).count())
                } else {
                    self.ring.push_back((fail, slow));
                    while self.ring.len() > cfg.window_size {
                        self.ring.pop_front();
                    }
                    (self.ring.len(), self.ring.iter().filter(|r| r.0).count(), self.ring.iter().filter(|r| r.1).count())
                };
                let min = cfg.effective_min_calls();
                let min_ok = if self.interp.min_cumulative { self.recorded >= min } else { n >= min };
                let full = cfg.time_based || n >= cfg.window_size;
                if min_ok && full && n > 0 {
                    let fr = fails as f64 / n as f64;
                    let sr = slows as f64 / n as f64;
                    if fr >= cfg.threshold || (cfg.slow_ms.is_some() && sr >= cfg.slow_rate) {
                        self.st = MState::Open { since: now };
                        self.clear();
                    }
                }
            }
            MState::HalfOpen { succ } => {
                if fail {
                    self.st = MState::Open { since: now };
                    self.clear();
                } else if succ + 1 >= cfg.permitted {
                    self.st = MState::Closed;
                    self.clear();
                } else {
                    self.st = MState::HalfOpen { succ: succ + 1 };
                }
            }
            MState::Open { .. } => {}
        }
    }
    fn force_open(&mut self, now: u64) {
        match self.st {
            MState::Open { .. } => {
                if self.interp.force_open_restarts {
                    self.st = MState::Open { since: now };
                }
            }
            _ => {
                self.st = MState::Open { since: now };
                self.clear();
            }
        }
    }
    fn force_closed(&mut self) {
        match self.st {
            MState::Closed => {
                if self.interp.force_closed_clears {
                    self.clear();
                }
            }
            _ => {
                self.st = MState::Closed;
                self.clear();
            }
        }
    }
    fn reset(&mut self) {
        self.st = MState::Closed;
        self.clear();
    }
    fn canon(&self, now: u64) -> String {
        let st = match &self.st {
            MState::Closed => "C".to_string(),
            MState::Open { since } => format!("O{}", now - since),
            MState::HalfOpen { succ } => format!("H{succ}"),
        };
        let recs: Vec<(u64, bool, bool)> = self.recs.iter().map(|(t, f, s)| (now - t, *f, *s)).collect();
        format!("{:?}/{}/{:?}/{:?}/{}", self.interp, st, self.ring, recs, self.recorded)
    }
}

pub struct C04 {
    pub cfg: CbCfg,
}

impl C04 {
    fn alphabet(&self) -> Vec<Op> {
        let mut v = vec![Op::Call { ok: true, kind: 0, lat: 0 }, Op::Call { ok: false, kind: 0, lat: 0 }];
        if self.cfg.slow_ms.is_some() {
            v.push(Op::Call { ok: true, kind: 0, lat: SLOW_LAT });
            v.push(Op::Call { ok: false, kind: 0, lat: SLOW_LAT });
        }
        if self.cfg.custom_classifier {
            v.push(Op::Call { ok: false, kind: 1, lat: 0 });
        }
        // ("stay open until closed by hand": wait_duration_in_open = Duration::MAX; no finite wait
        // ends it, the long wait of this alphabet is then an hour)
        let forever = self.cfg.wait_ms >= crate::handle::WAIT_FOREVER;
        v.push(Op::Wait(if forever { 3_600_000 } else { self.cfg.wait_ms }));
        // a short wait: 10 ms, or half the open wait in the seconds-range configurations
        let short = if forever { 10 } else if self.cfg.wait_ms >= 1000 { self.cfg.wait_ms / 2 } else { 10 };
        v.push(Op::Wait(short));
        if self.cfg.time_based {
            v.push(Op::Wait(self.cfg.window_ms + short));
        }
        v.push(Op::ForceOpen);
        v.push(Op::ForceClosed);
        v.push(Op::Reset);
        v
    }
    fn interps(&self) -> Vec<Interp> {
        let mut v = vec![];
        let b = [false, true];
        for &min_cumulative in &b {
            for &expiry_inclusive in if self.cfg.time_based { &b[..] } else { &b[..1] } {
                for &open_inclusive in &b {
                    for &force_open_restarts in &b {
                        for &force_closed_clears in &b[..1] {
                            v.push(Interp { min_cumulative, expiry_inclusive, open_inclusive, force_open_restarts, force_closed_clears });
                        }
                    }
                }
            }
        }
        v
    }
}

fn op_name(o: &Op) -> String {
    match o {
        Op::Call { ok: true, lat: 0, .. } => "success".into(),
        Op::Call { ok: true, .. } => "slow_success".into(),
        Op::Call { ok: false, kind: 1, .. } => "error_not_a_failure".into(),
        Op::Call { ok: false, lat: 0, .. } => "failure".into(),
        Op::Call { ok: false, .. } => "slow_failure".into(),
        Op::Wait(ms) => format!("wait_{ms}ms"),
        Op::ForceOpen => "force_open".into(),
        Op::ForceClosed => "force_closed".into(),
        Op::Reset => "reset".into(),
    }
}

impl SeqScenario for C04 {
    fn property(&self) -> &'static str {
        "C04"
    }
    fn label(&self) -> String {
        format!("c04 {}", self.cfg.label())
    }
    fn ops(&self) -> Vec<String> {
        self.alphabet().iter().map(op_name).collect()
    }
    fn run(&self, hist: &[usize], trace: bool) -> SeqOut {
        let cfg = &self.cfg;
        let site = cfg.site();
        let alpha = self.alphabet();
        let mut w = World::new(0, 10, Mode::Script, 1);
        w.inner.lock().unwrap().latency_inside_call = self.cfg.latency_inside_call;
        let (mut cb, _tl) = build(cfg, w.inner.clone(), w.origin);
        let mut clone = cb.clone_box();
        let mut cands: Vec<Model> = self.interps().into_iter().map(Model::new).collect();
        let mut viols = vec![];
        let mut log = vec![];
        let mut outcome = String::new();
        let mut witnesses = vec![];
        let mut next_req = 0u32;
        // Canonical recovery probe, run after *every* history - also after those that are then
        // merged into an already known state: the dedup key only sees the reference machine
        // and the public views, so a breaker that carries hidden state across the merge (a
        // stale half-open success count, a window that was not emptied) would otherwise be
        // explored no further. Wait out the open period, succeed permitted+1 times, then fail
        // until the window must have tripped; every step is compared like any other.
        let mut all: Vec<Op> = hist.iter().map(|&oi| alpha[oi].clone()).collect();
        all.push(Op::Wait(if cfg.wait_ms >= crate::handle::WAIT_FOREVER { 3_600_000 } else { cfg.wait_ms }));
        for _ in 0..cfg.permitted + 1 {
            all.push(Op::Call { ok: true, kind: 0, lat: 0 });
        }
        for _ in 0..cfg.window_size.max(cfg.effective_min_calls()).min(3) {
            all.push(Op::Call { ok: false, kind: 0, lat: 0 });
        }
        let mut key_at_end: Option<String> = None;
        let key_of = |w: &World, cb: &Box<dyn crate::handle::Cb>, cands: &Vec<Model>| -> String {
            let now = w.now_ms();
            let m = w.block_on(cb.metrics());
            let mut cs: Vec<String> = cands.iter().map(|c| c.canon(now)).collect();
            cs.sort();
            cs.dedup();
            let tsc = if m.state == CircuitState::Open { m.time_since_state_change.as_millis() as i64 } else { -1 };
            format!("{:?}|{:?}/{}/{}/{}/{}/{}", cs, m.state, m.total_calls, m.failure_count, m.success_count, m.slow_call_count, tsc)
        };
        if hist.is_empty() {
            key_at_end = Some(key_of(&w, &cb, &cands));
        }
        for (step, op) in all.clone().iter().enumerate() {
            let in_probe = step >= hist.len();
            let t0 = w.now_ms();
            let mut admitted_impl: Option<bool> = None;
            let mut result: Option<Outcome> = None;
            match op {
                Op::Call { ok, kind, lat } => {
                    let out = if *ok { Out::Ok } else { Out::Err(*kind) };
                    w.inner.lock().unwrap().script.clear();
                    w.inner.lock().unwrap().script.push_back(Plan::after(*lat, out));
                    let before = w.inner.lock().unwrap().calls.len();
                    next_req += 1;
                    // alternate between the service and a clone of it
                    let h = if step % 2 == 0 { &mut cb } else { &mut clone };
                    let fut = h.start_call(Req::new(next_req, 0));
                    let r = w.block_on(fut);
                    let after = w.inner.lock().unwrap().calls.len();
                    admitted_impl = Some(after > before);
                    if after > before + 1 {
                        viols.push(Viol::new("multiple_inner_calls", site, "one call reached the inner service more than once"));
                    }
                    result = Some(r);
                }
                Op::Wait(ms) => w.advance(*ms),
                Op::ForceOpen => w.block_on(cb.force_open()),
                Op::ForceClosed => w.block_on(cb.force_closed()),
                Op::Reset => w.block_on(cb.reset()),
            }
            let now = w.now_ms();
            // advance every candidate model
            let mut next_cands = vec![];
            let s_async = w.block_on(cb.state());
            let s_sync = cb.state_sync();
            let s_clone = clone.state_sync();
            let m = w.block_on(cb.metrics());
            let mut state_only_match = false;
            for mut c in cands.iter().cloned() {
                let mut admitted_model = None;
                match op {
                    Op::Call { ok, kind, lat } => {
                        let adm = c.admit(cfg, t0);
                        admitted_model = Some(adm);
                        if adm {
                            let fail = !*ok && !(cfg.custom_classifier && *kind == 1);
                            let slow = cfg.slow_ms.map_or(false, |s| *lat >= s);
                            c.record(cfg, t0 + *lat, fail, slow);
                        }
                    }
                    Op::Wait(_) => {}
                    Op::ForceOpen => c.force_open(now),
                    Op::ForceClosed => c.force_closed(),
                    Op::Reset => c.reset(),
                }
                if c.state() == s_async {
                    state_only_match = true;
                    if admitted_model == admitted_impl {
                        next_cands.push(c);
                    }
                }
            }
            if trace {
                log.push(format!(
                    "{:>5}ms {:<20} -> impl state={:?} admitted={:?} result={:?} metrics(total={},fail={},succ={},slow={}) candidates {}->{}",
                    now, op_name(op), s_async, admitted_impl, result.as_ref().map(|r| r.tag()), m.total_calls, m.failure_count, m.success_count, m.slow_call_count, cands.len(), next_cands.len()
                ));
            }
            // the three views agree
            if s_async != s_sync || s_sync != m.state || s_clone != s_sync || cb.is_open() != (s_sync == CircuitState::Open) {
                viols.push(Viol::new("views_disagree", site, format!("state()={s_async:?} state_sync()={s_sync:?} clone.state_sync()={s_clone:?} metrics.state={:?} is_open={}", m.state, cb.is_open())));
            }
            // outer result variant
            if let (Some(adm), Some(r)) = (admitted_impl, &result) {
                match (adm, r) {
                    (false, Outcome::Layer(t)) if t == "Open" && !cfg.fallback => {}
                    // with_fallback: a rejected call is answered by the fallback
                    (false, Outcome::Ok(r)) if cfg.fallback && r.serial == crate::handle::FALLBACK_SERIAL => {}
                    (false, other) => viols.push(Viol::new("rejected_call_wrong_result", site, format!("call did not reach the inner service but resolved with {other:?}"))),
                    (true, Outcome::Layer(t)) => viols.push(Viol::new("admitted_call_wrong_result", site, format!("call reached the inner service but resolved with layer error {t}"))),
                    (true, _) => {}
                }
            }
            if next_cands.is_empty() {
                let expected: Vec<String> = {
                    let mut e: Vec<String> = cands
                        .iter()
                        .cloned()
                        .map(|mut c| {
                            let adm = match op {
                                Op::Call { ok, kind, lat } => {
                                    let adm = c.admit(cfg, t0);
                                    if adm {
                                        let fail = !*ok && !(cfg.custom_classifier && *kind == 1);
                                        let slow = cfg.slow_ms.map_or(false, |s| *lat >= s);
                                        c.record(cfg, t0 + *lat, fail, slow);
                                    }
                                    Some(adm)
                                }
                                Op::Wait(_) => None,
                                Op::ForceOpen => {
                                    c.force_open(now);
                                    None
                                }
                                Op::ForceClosed => {
                                    c.force_closed();
                                    None
                                }
                                Op::Reset => {
                                    c.reset();
                                    None
                                }
                            };
                            format!("{:?}/admitted={:?}", c.state(), adm)
                        })
                        .collect();
                    e.sort();
                    e.dedup();
                    e
                };
                let kind = match (in_probe, state_only_match) {
                    (false, true) => "admission_mismatch",
                    (false, false) => "state_mismatch",
                    (true, true) => "admission_mismatch_in_recovery_probe",
                    (true, false) => "state_mismatch_in_recovery_probe",
                };
                viols.push(Viol::new(
                    kind,
                    site,
                    format!(
                        "after {:?} the breaker shows state {:?} admitted={:?}; the documented machine allows only {:?} (history {:?})",
                        op_name(op), s_async, admitted_impl, expected, all[..=step].iter().map(op_name).collect::<Vec<_>>()
                    ),
                ));
                break;
            }
            cands = next_cands;
            if step + 1 == hist.len() {
                key_at_end = Some(key_of(&w, &cb, &cands));
                outcome = format!("{}:{:?}:{:?}", op_name(op), s_async, admitted_impl);
                match (&op, s_async) {
                    (Op::Call { .. }, CircuitState::Open) => witnesses.push("opened_or_open_after_call"),
                    (Op::Call { .. }, CircuitState::HalfOpen) => witnesses.push("half_open_after_call"),
                    _ => {}
                }
                if admitted_impl == Some(false) {
                    witnesses.push("call_rejected");
                }
                if cands.iter().map(|c| c.interp).collect::<std::collections::BTreeSet<_>>().len() < self.interps().len() {
                    witnesses.push("interpretation_pruned");
                }
            }
        }
        // the key describes the state at the end of the history proper (before the probe); a
        // history that already failed on the way has no successors anyway
        let key = key_at_end.unwrap_or_else(|| key_of(&w, &cb, &cands));
        SeqOut { key, viols, outcome, witnesses, log, enabled: None }
    }
}

pub fn grid(thorough: bool) -> Vec<CbCfg> {
    let mut v = vec![];
    let sizes: &[usize] = if thorough { &[1, 2, 3] } else { &[1, 2] };
    let thresholds: &[f64] = if thorough { &[0.0, 0.5, 1.0] } else { &[0.5, 1.0] };
    // (slow-call duration threshold, slow-call rate threshold); (None, 0.0): a rate threshold
    // of zero with detection switched off
    let slows: &[(Option<u64>, f64)] = &[(None, 1.0), (Some(SLOW_THR), 0.5), (Some(SLOW_THR), 1.0), (None, 0.0)];
    for time_based in [false, true] {
        for &size in sizes {
            for &thr in thresholds {
                let mut mins: Vec<Option<usize>> = vec![None, Some(size + 2)];
                if size > 1 {
                    mins.push(Some(size - 1));
                }
                if thorough {
                    mins.push(Some(size));
                }
                for min in mins {
                    for permitted in [1usize, 2] {
                        for &(slow_ms, slow_rate) in slows {
                            for custom in [false, true] {
                                // the custom classifier is installed first in every other
                                // configuration that has one, last in the others
                                let classifier_first = custom && v.len() % 4 == 1;
                                v.push(CbCfg {
                                    time_based,
                                    window_size: size,
                                    window_ms: 50,
                                    threshold: thr,
                                    min_calls: min,
                                    wait_ms: 30,
                                    wait_shave_us: 0,
                                    permitted,
                                    slow_ms,
                                    slow_rate,
                                    custom_classifier: custom,
                                    // every fifth configuration runs the breaker converted with
                                    // with_fallback(..): the manual overrides, views and the state
                                    // machine are implemented a second time on that type
                                    fallback: v.len() % 5 == 3,
                                    fallback_gated: false,
                                    classifier_first,
                                    // every third configuration starts from the fast_fail()
                                    // preset and overrides every setting afterwards
                                    preset_start: v.len() % 3 == 2,
                                    // every second configuration with slow-call detection: the
                                    // inner service is slow inside call(), not inside its future
                                    latency_inside_call: slow_ms.is_some() && v.len() % 2 == 0,
                                });
                            }
                        }
                    }
                }
            }
        }
    }
    // everything in the seconds range: open wait 1.5 s, time window 2.5 s (ages of 0.75 s,
    // 1.5 s, 2.25 s, 3 s ...: whole seconds and sub-second parts on both sides of the limits)
    for time_based in [false, true] {
        for permitted in [1usize, 2] {
            v.push(CbCfg {
                time_based,
                window_size: 2,
                window_ms: 2500,
                threshold: 0.5,
                min_calls: None,
                wait_ms: 1500,
                wait_shave_us: 0,
                permitted,
                slow_ms: None,
                slow_rate: 1.0,
                custom_classifier: false,
                fallback: false,
                fallback_gated: false,
                classifier_first: false,
                preset_start: false,
                latency_inside_call: false,
            });
        }
    }
    // "stay open until closed by hand": wait_duration_in_open = Duration::MAX
    for time_based in [false, true] {
        v.push(CbCfg {
            time_based,
            window_size: 1,
            window_ms: 50,
            threshold: 0.5,
            min_calls: Some(1),
            wait_ms: crate::handle::WAIT_FOREVER,
            wait_shave_us: 0,
            permitted: 1,
            slow_ms: None,
            slow_rate: 1.0,
            custom_classifier: false,
            fallback: false,
            fallback_gated: false,
            classifier_first: false,
            preset_start: false,
            latency_inside_call: false,
        });
    }
    // a wait below one millisecond (0.9 ms): the breaker is open at the instant it opened and
    // a millisecond later the wait is over
    for time_based in [false, true] {
        v.push(CbCfg {
            time_based,
            window_size: 1,
            window_ms: 50,
            threshold: 0.5,
            min_calls: Some(1),
            wait_ms: 1,
            wait_shave_us: 100,
            permitted: 1,
            slow_ms: None,
            slow_rate: 1.0,
            custom_classifier: false,
            fallback: false,
            fallback_gated: false,
            classifier_first: false,
            preset_start: false,
            latency_inside_call: false,
        });
    }
    v
}
