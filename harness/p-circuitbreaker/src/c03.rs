//! C03 — an open breaker shields the inner service (engine A).

use crate::handle::{build_full, Cb, CbCfg, FbGate, TransitionLog, FALLBACK_SERIAL};
use std::sync::Arc;
use trv_core::nest::Nest;
use tower_resilience_circuitbreaker::CircuitState;
use trv_core::inner::{Out, Req};
use trv_core::svcx::{self, Action, Counts, Scenario, Viol};
use trv_core::world::{Outcome, Phase, World};

pub struct C03 {
    pub cfg: CbCfg,
    pub callers: usize,
    pub max_ticks: usize,
    pub max_drops: usize,
    pub max_force: usize,
    /// explorer time grid (ms): 10, or 1010 for the seconds-range configuration
    pub grid: u64,
    /// emulated lock contention: a caller may be polled from inside another caller's critical
    /// section - including from inside the announcement of a transition (see trv_core::nest)
    pub nested: usize,
    /// the breaker may also be opened through the health-check integration
    /// (`trigger_unhealthy`, which opens it from a spawned task): Ctl(2)
    pub health_trigger: bool,
}

/// One poll of an async view of the breaker: None if it would have to wait - the circuit
/// lock is then being held across an await by somebody.
fn poll_view<T>(f: futures::future::BoxFuture<'_, T>) -> Option<T> {
    let mut f = f;
    let waker = trv_core::ilv::noop_waker();
    let mut cx = std::task::Context::from_waker(&waker);
    match f.as_mut().poll(&mut cx) {
        std::task::Poll::Ready(v) => Some(v),
        std::task::Poll::Pending => None,
    }
}

pub struct X {
    pre_queue: bool,
    nest: Option<Arc<Nest>>,
    gate: Arc<FbGate>,
    svc: Box<dyn Cb>,
    other: Box<dyn Cb>,
    tl: TransitionLog,
    /// before the current action: observed open and still within the wait
    pre_open: bool,
    pre_calls: usize,
    pre_had_inner: bool,
    saw_open_reject: bool,
    saw_inflight_when_opened: bool,
    saw_pending_fallback: bool,
    /// before the current action: a state view says Open although no opening was announced
    pre_open_unannounced: bool,
}

fn t_open(tl: &TransitionLog) -> Option<u64> {
    tl.lock().unwrap().iter().rev().find(|t| t.3 == CircuitState::Open).map(|t| t.0)
}

fn has_inner(w: &World, c: usize) -> bool {
    match &w.callers[c].req {
        Some(r) => !w.inner_calls_for_req(r.id).is_empty(),
        None => false,
    }
}

impl Scenario for C03 {
    type X = X;
    fn property(&self) -> &'static str {
        "C03"
    }
    fn label(&self) -> String {
        format!("c03 {} callers={}{}", self.cfg.label(), self.callers, if self.health_trigger { " opened-by-trigger_unhealthy" } else { "" })
    }
    fn callers(&self) -> usize {
        self.callers
    }
    fn grid_ms(&self) -> u64 {
        self.grid
    }
    fn init(&self, w: &mut World) -> X {
        let nest = if self.nested > 0 { Some(Nest::new()) } else { None };
        let (svc, tl, gate) = build_full(&self.cfg, w.inner.clone(), w.origin, nest.clone());
        let other = svc.clone_box();
        X { pre_queue: false, nest, gate, svc, other, tl, pre_open: false, pre_calls: 0, pre_had_inner: false, saw_open_reject: false, saw_inflight_when_opened: false, saw_pending_fallback: false, pre_open_unannounced: false }
    }
    fn arrive(&self, w: &mut World, x: &mut X, c: usize, _v: u8) {
        // every caller works on its own clone
        let mut h = x.svc.clone_box();
        let req = Req::new(c as u32, 0);
        let fut = h.start_call(req.clone());
        let fut = match &x.nest {
            Some(n) => n.wrap(c, fut, w.callers[c].flag.clone()),
            None => fut,
        };
        w.set_arrived(c, req, fut);
    }
    fn outs(&self) -> Vec<Out> {
        vec![Out::Ok, Out::Err(0)]
    }
    fn ctl_actions(&self, _w: &World, x: &X) -> Vec<u8> {
        // 0: force_open through another clone; 1: let pending fallback futures complete
        let mut v = vec![0];
        if self.health_trigger {
            v.push(2);
        }
        if self.cfg.fallback_gated && !*x.gate.open.lock().unwrap() {
            v.push(1);
        }
        // 10 + j: arm caller j for a nested poll
        if let Some(n) = &x.nest {
            if n.armed().is_none() {
                v.extend((0.._w.callers.len().min(self.callers)).filter(|&j| _w.pollable(j)).map(|j| 10 + j as u8));
            }
        }
        v
    }
    fn apply_ctl(&self, w: &mut World, x: &mut X, ctl: u8) {
        if ctl == 1 {
            x.gate.release();
            return;
        }
        if ctl >= 10 {
            if let Some(n) = &x.nest {
                n.arm(ctl as usize - 10);
            }
            return;
        }
        if ctl == 2 {
            // (the opening happens in a spawned task, which runs when the runtime next does)
            w.block_on(async { x.other.trigger_unhealthy() });
            return;
        }
        // (a breaker whose lock is held across an await would make this wait for ever)
        if poll_view(x.other.metrics()).is_some() {
            w.block_on(x.other.force_open());
        }
    }
    fn allow(&self, _w: &World, _x: &X, h: &[Action], a: &Action) -> bool {
        let c = Counts::of(h);
        match a {
            Action::Tick => c.ticks < self.max_ticks,
            Action::Drop(_) => c.drops < self.max_drops,
            Action::Ctl(0) => h.iter().filter(|a| matches!(a, Action::Ctl(0))).count() < self.max_force,
            Action::Ctl(2) => !h.iter().any(|a| matches!(a, Action::Ctl(2))),
            Action::Ctl(c) if *c >= 10 => h.iter().filter(|a| matches!(a, Action::Ctl(c) if *c >= 10)).count() < self.nested,
            Action::Ctl(_) => true,
            _ => true,
        }
    }
    fn fingerprint(&self, w: &World, x: &X) -> String {
        if let Some(n) = &x.nest {
            let now = w.now_ms();
            let shield = t_open(&x.tl).filter(|t| now < t.saturating_add(self.cfg.wait_ms)).map(|t| (now - t) as i64).unwrap_or(-1);
            return format!("nested/{:?}/{}/{:?}/{:?}", x.svc.state_sync(), shield, n.armed(), n.fired());
        }
        let Some(m) = poll_view(x.svc.metrics()) else {
            return format!("views-blocked/{:?}/{}", x.svc.state_sync(), *x.gate.open.lock().unwrap());
        };
        let tsc = if m.state == CircuitState::Open { m.time_since_state_change.as_millis() as i64 } else { -1 };
        // the oracle's own memory is state too: how long ago the transition log last saw the
        // breaker open (while that still shields). For a correct breaker this equals `tsc`; for
        // one that mismanages its timer the two differ, and merging on `tsc` alone would fold a
        // history whose shield has just restarted into one whose shield is about to end.
        let now = w.now_ms();
        let shield = t_open(&x.tl).filter(|t| now < t.saturating_add(self.cfg.wait_ms)).map(|t| (now - t) as i64).unwrap_or(-1);
        format!("{:?}/{}/{}/{}/{}/{}/{}/{}", m.state, m.total_calls, m.failure_count, m.success_count, m.slow_call_count, tsc, shield, *x.gate.open.lock().unwrap())
    }
    fn before(&self, w: &World, x: &mut X, a: &Action) {
        let now = w.now_ms();
        // Shielded: the breaker was seen to open less than wait_duration_in_open ago.  Nothing
        // in this scenario's alphabet may end that period early (no force_closed / reset), so
        // the shield is judged from the transition log, not from the state shown right now:
        // a breaker that slips back to closed before the wait has elapsed must still not let
        // a new call through.
        x.pre_open = t_open(&x.tl).map_or(false, |t| now < t.saturating_add(self.cfg.wait_ms));
        x.pre_calls = w.inner.lock().unwrap().calls.len();
        // a view that says Open is an observation too: if no opening has been announced to the
        // listeners, the views run ahead of what admission checks
        x.pre_open_unannounced = x.svc.state_sync() == CircuitState::Open && x.tl.lock().unwrap().last().map(|t| t.3) != Some(CircuitState::Open);
        x.pre_had_inner = match a {
            Action::Poll(c) => has_inner(w, *c as usize),
            _ => false,
        };
        // A caller queued on the circuit lock by a nested poll owns the lock from the moment it
        // is handed over until it is polled again (its thread would run on at once; here the
        // explorer may poll somebody else first, who then has to queue behind it): "answered
        // at once" is only judged for polls that find nobody else waiting to be polled.
        x.pre_queue = false;
        if x.nest.is_some() {
            if let Action::Poll(c) = a {
                x.pre_queue = (0..w.callers.len()).any(|o| o != *c as usize && w.callers[o].polls > 0 && w.callers[o].is_live() && w.needs_poll(o))
                    || x.nest.as_ref().map_or(false, |n| n.fired().iter().any(|(j, _)| w.callers[*j].is_live() && w.needs_poll(*j) && *j != *c as usize));
            }
        }
    }
    fn after(&self, w: &mut World, x: &mut X, a: &Action, out: &mut Vec<Viol>) {
        let site = self.cfg.site();
        let s1 = x.svc.state_sync();
        let s2 = x.other.state_sync();
        if s1 != s2 {
            out.push(Viol::new("clones_disagree", site, format!("two clones of one breaker show {s1:?} and {s2:?}")));
        }
        // the circuit lock is never held across an await: the async views answer in one poll
        // an inner call started after a transition to Open had been announced (and before the
        // wait has elapsed) - judged by call order, so it also covers a caller polled from
        // inside the announcement itself
        {
            let marks = x.gate.open_marks.lock().unwrap().clone();
            let g = w.inner.lock().unwrap();
            for (t, n) in marks {
                if let Some(k) = g.calls.iter().skip(n).find(|k| k.start_ms < t.saturating_add(self.cfg.wait_ms)) {
                    out.push(Viol::new("inner_call_after_open_announced", site, format!("inner call #{} (req {}) started at {}ms although the breaker had announced its opening at {t}ms after {n} inner calls (wait {}ms)", k.k, k.req.id, k.start_ms, self.cfg.wait_ms)));
                    break;
                }
            }
        }
        if x.nest.is_none() && poll_view(x.svc.metrics()).is_none() {
            out.push(Viol::new("views_blocked", site, format!("after {} metrics() cannot complete: the circuit lock is being held across an await (callers admitted earlier cannot record their outcome, open calls are not answered)", a.enc())));
            return;
        }
        let calls_now = w.inner.lock().unwrap().calls.len();
        if x.pre_open && calls_now > x.pre_calls {
            out.push(Viol::new(
                "inner_call_while_open",
                site,
                format!("breaker observed Open (opened at {:?}, wait {}ms, now {}ms) but action {} started an inner call", t_open(&x.tl), self.cfg.wait_ms, w.now_ms(), a.enc()),
            ));
        }
        if x.pre_open_unannounced && calls_now > x.pre_calls {
            out.push(Viol::new("inner_call_while_observed_open", site, format!("state_sync() reported Open before action {} (no opening had been announced to the listeners), and the action started an inner call", a.enc())));
        }
        if let Action::Poll(c) = a {
            let c = *c as usize;
            if x.pre_open && !x.pre_had_inner && !x.pre_queue {
                match &w.callers[c].phase {
                    Phase::Done(Outcome::Layer(t)) if t == "Open" && !self.cfg.fallback => x.saw_open_reject = true,
                    Phase::Done(Outcome::Ok(r)) if self.cfg.fallback && r.serial == FALLBACK_SERIAL => x.saw_open_reject = true,
                    // a fallback that is still pending: it must at least have been started in this poll
                    Phase::Live if self.cfg.fallback_gated && !*x.gate.open.lock().unwrap() && w.callers[c].req.as_ref().map_or(false, |r| x.gate.invoked.lock().unwrap().contains(&r.id)) => {
                        x.saw_open_reject = true;
                        x.saw_pending_fallback = true;
                    }
                    other => out.push(Viol::new(
                        "open_not_answered_at_once",
                        site,
                        format!("caller {c} polled while the breaker is open: expected the open-circuit error{} at once, got {:?}", if self.cfg.fallback { " / fallback value" } else { "" }, other),
                    )),
                }
            }
        }
        if s1 == CircuitState::Open && w.inner_live() > 0 {
            x.saw_inflight_when_opened = true;
        }
    }
    fn witnesses(&self, _w: &World, x: &X, h: &[Action]) -> Vec<&'static str> {
        let mut v = vec![];
        if x.saw_open_reject {
            v.push("rejected_while_open");
        }
        if x.saw_inflight_when_opened {
            v.push("call_in_flight_while_open");
        }
        if x.saw_pending_fallback {
            v.push("fallback_pending_while_others_are_served");
        }
        let tl = x.tl.lock().unwrap();
        if tl.iter().any(|t| t.3 == CircuitState::Open) {
            if h.iter().any(|a| matches!(a, Action::Ctl(2))) {
                v.push("opened_by_trigger_unhealthy");
            } else if h.iter().any(|a| matches!(a, Action::Ctl(_))) {
                v.push("opened_by_force_open");
            } else {
                v.push("opened_by_recorded_outcomes");
            }
        }
        if tl.iter().any(|t| t.3 == CircuitState::HalfOpen) {
            v.push("went_half_open_after_wait");
        }
        if tl.iter().any(|t| t.2 == CircuitState::HalfOpen && t.3 == CircuitState::Open) {
            v.push("reopened_by_a_failed_trial");
        }
        v
    }
    fn epilogue(&self, w: &mut World, x: &mut X, out: &mut Vec<Viol>) -> String {
        let site = self.cfg.site();
        // pending fallback futures may complete now
        x.gate.release();
        if !svcx::drain(w, 12) {
            out.push(Viol::new("caller_never_resolves", site, format!("callers {:?} unresolved after draining", w.live_callers())));
            return "stuck".into();
        }
        let sig: Vec<String> = w.callers.iter().map(|c| match &c.phase { Phase::Done(o) => o.tag(), p => format!("{p:?}") }).collect();
        format!("{:?}/{:?}", sig, x.svc.state_sync())
    }
}
