//! Type-erased handle over `CircuitBreaker<GatedInner, C>` and its fallback variant.

use futures::future::BoxFuture;
use std::sync::{Arc, Mutex};
use std::time::Duration;
use tower::Service;
use tower_resilience_circuitbreaker::classifier::FailureClassifier;
use tower_resilience_circuitbreaker::{
    CircuitBreaker, CircuitBreakerError, CircuitBreakerLayer, CircuitMetrics, CircuitState, SlidingWindowType,
};
use trv_core::inner::{GatedInner, InnerErr, Req, Resp, Shared};
use trv_core::world::{drive_ready, CallerFut, Outcome};

pub const FALLBACK_SERIAL: u32 = 900_000;

pub trait Cb {
    fn clone_box(&self) -> Box<dyn Cb>;
    fn start_call(&mut self, req: Req) -> CallerFut;
    fn state_sync(&self) -> CircuitState;
    fn is_open(&self) -> bool;
    fn state(&self) -> BoxFuture<'_, CircuitState>;
    fn metrics(&self) -> BoxFuture<'_, CircuitMetrics>;
    fn force_open(&self) -> BoxFuture<'_, ()>;
    fn force_closed(&self) -> BoxFuture<'_, ()>;
    fn reset(&self) -> BoxFuture<'_, ()>;
    /// the health-check integration's entry point (opens the breaker from a spawned task)
    fn trigger_unhealthy(&self);
}

fn map_res(r: Result<Resp, CircuitBreakerError<InnerErr>>) -> Outcome {
    match r {
        Ok(r) => Outcome::Ok(r),
        Err(CircuitBreakerError::Inner(e)) => Outcome::Inner(e),
        Err(CircuitBreakerError::OpenCircuit) => Outcome::Layer("Open".into()),
    }
}

impl<C> Cb for CircuitBreaker<GatedInner, C>
where
    C: FailureClassifier<Resp, InnerErr> + Send + Sync + 'static,
{
    fn clone_box(&self) -> Box<dyn Cb> {
        Box::new(self.clone())
    }
    fn start_call(&mut self, req: Req) -> CallerFut {
        match drive_ready::<_, Req>(self, 4) {
            Ok(Ok(())) => {}
            _ => panic!("circuit breaker poll_ready not ready"),
        }
        let fut = self.call(req);
        Box::pin(async move { map_res(fut.await) })
    }
    fn state_sync(&self) -> CircuitState {
        CircuitBreaker::state_sync(self)
    }
    fn is_open(&self) -> bool {
        CircuitBreaker::is_open(self)
    }
    fn state(&self) -> BoxFuture<'_, CircuitState> {
        Box::pin(CircuitBreaker::state(self))
    }
    fn metrics(&self) -> BoxFuture<'_, CircuitMetrics> {
        Box::pin(CircuitBreaker::metrics(self))
    }
    fn force_open(&self) -> BoxFuture<'_, ()> {
        Box::pin(CircuitBreaker::force_open(self))
    }
    fn force_closed(&self) -> BoxFuture<'_, ()> {
        Box::pin(CircuitBreaker::force_closed(self))
    }
    fn reset(&self) -> BoxFuture<'_, ()> {
        Box::pin(CircuitBreaker::reset(self))
    }
    fn trigger_unhealthy(&self) {
        tower_resilience_core::HealthTriggerable::trigger_unhealthy(self)
    }
}

/// A breaker that still has a plain handle while another handle of it was converted with
/// with_fallback(..) (one shared breaker, a fallback on one route): calls and views go through
/// the converted handle; force_open goes through the plain one, force_closed and reset through
/// the converted one - all of them must act on the one shared circuit.
struct Pair<C>
where
    C: FailureClassifier<Resp, InnerErr> + Send + Sync + 'static,
{
    plain: CircuitBreaker<GatedInner, C>,
    converted: WithFb<C>,
}

impl<C> Cb for Pair<C>
where
    C: FailureClassifier<Resp, InnerErr> + Send + Sync + 'static,
{
    fn clone_box(&self) -> Box<dyn Cb> {
        Box::new(Pair { plain: self.plain.clone(), converted: self.converted.clone() })
    }
    fn start_call(&mut self, req: Req) -> CallerFut {
        self.converted.start_call(req)
    }
    fn state_sync(&self) -> CircuitState {
        WithFb::<C>::state_sync(&self.converted)
    }
    fn is_open(&self) -> bool {
        WithFb::<C>::is_open(&self.converted)
    }
    fn state(&self) -> BoxFuture<'_, CircuitState> {
        Box::pin(WithFb::<C>::state(&self.converted))
    }
    fn metrics(&self) -> BoxFuture<'_, CircuitMetrics> {
        Box::pin(WithFb::<C>::metrics(&self.converted))
    }
    fn force_open(&self) -> BoxFuture<'_, ()> {
        Box::pin(CircuitBreaker::force_open(&self.plain))
    }
    fn force_closed(&self) -> BoxFuture<'_, ()> {
        Box::pin(WithFb::<C>::force_closed(&self.converted))
    }
    fn reset(&self) -> BoxFuture<'_, ()> {
        Box::pin(WithFb::<C>::reset(&self.converted))
    }
    fn trigger_unhealthy(&self) {
        tower_resilience_core::HealthTriggerable::trigger_unhealthy(&self.converted)
    }
}

type WithFb<C> = tower_resilience_circuitbreaker::CircuitBreakerWithFallback<GatedInner, C, Req, Resp, InnerErr>;

impl<C> Cb for WithFb<C>
where
    C: FailureClassifier<Resp, InnerErr> + Send + Sync + 'static,
{
    fn clone_box(&self) -> Box<dyn Cb> {
        Box::new(self.clone())
    }
    fn start_call(&mut self, req: Req) -> CallerFut {
        match drive_ready::<_, Req>(self, 4) {
            Ok(Ok(())) => {}
            _ => panic!("circuit breaker poll_ready not ready"),
        }
        let fut = self.call(req);
        Box::pin(async move { map_res(fut.await) })
    }
    fn state_sync(&self) -> CircuitState {
        WithFb::<C>::state_sync(self)
    }
    fn is_open(&self) -> bool {
        WithFb::<C>::is_open(self)
    }
    fn state(&self) -> BoxFuture<'_, CircuitState> {
        Box::pin(WithFb::<C>::state(self))
    }
    fn metrics(&self) -> BoxFuture<'_, CircuitMetrics> {
        Box::pin(WithFb::<C>::metrics(self))
    }
    fn force_open(&self) -> BoxFuture<'_, ()> {
        Box::pin(WithFb::<C>::force_open(self))
    }
    fn force_closed(&self) -> BoxFuture<'_, ()> {
        Box::pin(WithFb::<C>::force_closed(self))
    }
    fn reset(&self) -> BoxFuture<'_, ()> {
        Box::pin(WithFb::<C>::reset(self))
    }
    fn trigger_unhealthy(&self) {
        tower_resilience_core::HealthTriggerable::trigger_unhealthy(self)
    }
}

#[derive(Clone, Debug)]
pub struct CbCfg {
    pub time_based: bool,
    pub window_size: usize,
    pub window_ms: u64,
    pub threshold: f64,
    pub min_calls: Option<usize>,
    pub wait_ms: u64,
    /// this many microseconds (< 1000) are shaved off the configured wait: a wait with a
    /// sub-millisecond part (on whole-millisecond instants the shield still ends at wait_ms)
    pub wait_shave_us: u64,
    pub permitted: usize,
    pub slow_ms: Option<u64>,
    pub slow_rate: f64,
    /// custom classifier: errors of kind 1 are not failures
    pub custom_classifier: bool,
    pub fallback: bool,
    /// the fallback's future stays pending until the explorer opens its gate
    pub fallback_gated: bool,
    /// builder order: the (type-changing) failure_classifier call comes first and every other
    /// setting after it, instead of last
    pub classifier_first: bool,
    /// the configuration starts from a preset (`CircuitBreakerLayer::fast_fail()`) and overrides
    /// every setting afterwards, instead of starting from `builder()`
    pub preset_start: bool,
    /// the inner service spends its latency inside `call()` (synchronous work before the
    /// future is returned) instead of inside the future
    pub latency_inside_call: bool,
}

/// Gate and invocation log of the (optionally gated) fallback function.
#[derive(Default)]
pub struct FbGate {
    pub open: Mutex<bool>,
    wakers: Mutex<Vec<std::task::Waker>>,
    /// request ids the fallback function was invoked with
    pub invoked: Mutex<Vec<u32>>,
    /// every announced transition to Open: (virtual ms, number of inner calls started before it)
    pub open_marks: Mutex<Vec<(u64, usize)>>,
}

impl FbGate {
    pub fn release(&self) {
        *self.open.lock().unwrap() = true;
        for w in self.wakers.lock().unwrap().drain(..) {
            w.wake();
        }
    }
}

struct FbFut {
    gate: Arc<FbGate>,
    gated: bool,
    resp: Option<Resp>,
}

impl std::future::Future for FbFut {
    type Output = Result<Resp, InnerErr>;
    fn poll(mut self: std::pin::Pin<&mut Self>, cx: &mut std::task::Context<'_>) -> std::task::Poll<Self::Output> {
        if self.gated && !*self.gate.open.lock().unwrap() {
            self.gate.wakers.lock().unwrap().push(cx.waker().clone());
            return std::task::Poll::Pending;
        }
        std::task::Poll::Ready(Ok(self.resp.take().expect("fallback future polled after completion")))
    }
}

impl CbCfg {
    pub fn label(&self) -> String {
        format!(
            "{} size={} win={}ms thr={} min={:?} wait={}ms permitted={} slow={:?}@{} classifier={} fallback={}{}",
            if self.time_based { "time_based" } else { "count_based" },
            self.window_size,
            self.window_ms,
            self.threshold,
            self.min_calls,
            self.wait_ms,
            self.permitted,
            self.slow_ms,
            self.slow_rate,
            if self.custom_classifier && self.classifier_first { "custom(set first)" } else if self.custom_classifier { "custom" } else { "default" },
            self.fallback,
            if self.fallback_gated { "(pending until released)" } else if self.wait_shave_us > 0 { " (wait minus sub-ms part)" } else if self.preset_start { " (fast_fail() preset, then overridden)" } else if self.latency_inside_call { " (latency spent inside call())" } else { "" }
        )
    }
    pub fn site(&self) -> &'static str {
        if self.time_based {
            "time_based"
        } else {
            "count_based"
        }
    }
    pub fn effective_min_calls(&self) -> usize {
        self.min_calls.unwrap_or(self.window_size)
    }
}

/// (virtual ms, world step, from, to)
pub type TransitionLog = Arc<Mutex<Vec<(u64, usize, CircuitState, CircuitState)>>>;

pub fn build(cfg: &CbCfg, inner: Shared, origin: tokio::time::Instant) -> (Box<dyn Cb>, TransitionLog) {
    build_nested(cfg, inner, origin, None)
}

/// `nest`: listeners that run inside the breaker's critical sections call its hook, so that an
/// armed caller is polled from there (emulated lock contention, see trv_core::nest).
pub fn build_nested(cfg: &CbCfg, inner: Shared, origin: tokio::time::Instant, nest: Option<Arc<trv_core::nest::Nest>>) -> (Box<dyn Cb>, TransitionLog) {
    let (h, tl, _) = build_full(cfg, inner, origin, nest);
    (h, tl)
}

/// "No deadline": wait_ms values from here on mean Duration::MAX.
pub const WAIT_FOREVER: u64 = u64::MAX / 4;

fn wait_of(cfg: &CbCfg) -> Duration {
    if cfg.wait_ms >= WAIT_FOREVER {
        Duration::MAX
    } else {
        Duration::from_micros(cfg.wait_ms * 1000 - cfg.wait_shave_us)
    }
}

fn start(cfg: &CbCfg) -> tower_resilience_circuitbreaker::CircuitBreakerConfigBuilder<tower_resilience_circuitbreaker::DefaultClassifier> {
    if cfg.preset_start {
        CircuitBreakerLayer::fast_fail()
    } else {
        CircuitBreakerLayer::builder()
    }
}

/// Every setting except the classifier, on a builder of any classifier type.
fn settings<C>(mut b: tower_resilience_circuitbreaker::CircuitBreakerConfigBuilder<C>, cfg: &CbCfg, inner: &Shared, origin: tokio::time::Instant, log: &TransitionLog, nest: &Option<Arc<trv_core::nest::Nest>>, gate: &Arc<FbGate>) -> tower_resilience_circuitbreaker::CircuitBreakerConfigBuilder<C> {
    let l2 = log.clone();
    let inner_for_step = inner.clone();
    let marks = gate.clone();
    let nest_t = nest.clone();
    b = b
        .failure_rate_threshold(cfg.threshold)
        .sliding_window_size(cfg.window_size)
        .wait_duration_in_open(wait_of(cfg))
        .permitted_calls_in_half_open(cfg.permitted)
        .on_state_transition(move |from, to| {
            let now = tokio::time::Instant::now().saturating_duration_since(origin).as_millis() as u64;
            let (step, calls) = {
                let g = inner_for_step.lock().unwrap();
                (g.step, g.calls.len())
            };
            l2.lock().unwrap().push((now, step, from, to));
            if to == CircuitState::Open {
                marks.open_marks.lock().unwrap().push((now, calls));
            }
            // the transition is announced from inside the critical section, before the new
            // state is stored: a caller polled from here sees what another thread would see
            if let Some(n) = &nest_t {
                n.hook();
            }
        });
    if let Some(n) = nest {
        let (n1, n2, n3, n4) = (n.clone(), n.clone(), n.clone(), n.clone());
        b = b.on_call_permitted(move |_| n1.hook()).on_call_rejected(move || n2.hook()).on_success(move |_| n3.hook()).on_failure(move |_| n4.hook());
    }
    if cfg.time_based {
        b = b.sliding_window_type(SlidingWindowType::TimeBased).sliding_window_duration(Duration::from_millis(cfg.window_ms));
    }
    if let Some(m) = cfg.min_calls {
        b = b.minimum_number_of_calls(m);
    }
    if let Some(s) = cfg.slow_ms {
        b = b.slow_call_duration_threshold(Duration::from_millis(s)).slow_call_rate_threshold(cfg.slow_rate);
    } else if cfg.slow_rate != 1.0 {
        // a slow-call rate threshold without slow-call detection: must have no effect
        b = b.slow_call_rate_threshold(cfg.slow_rate);
    }
    b
}

pub fn build_full(cfg: &CbCfg, inner: Shared, origin: tokio::time::Instant, nest: Option<Arc<trv_core::nest::Nest>>) -> (Box<dyn Cb>, TransitionLog, Arc<FbGate>) {
    let log: TransitionLog = Arc::new(Mutex::new(vec![]));
    let gi = GatedInner::new(inner.clone());
    let gate: Arc<FbGate> = Arc::new(FbGate::default());
    let gate_s = gate.clone();
    let g2 = gate.clone();
    let gated = cfg.fallback_gated;
    let fb = move |req: Req| -> BoxFuture<'static, Result<Resp, InnerErr>> {
        g2.invoked.lock().unwrap().push(req.id);
        Box::pin(FbFut { gate: g2.clone(), gated, resp: Some(Resp { serial: FALLBACK_SERIAL, req: req.id, key: req.key }) })
    };
    fn classify(r: &Result<Resp, InnerErr>) -> bool {
        matches!(r, Err(e) if e.kind != 1)
    }
    let h: Box<dyn Cb> = if cfg.custom_classifier {
        let layer = if cfg.classifier_first {
            settings(start(cfg).failure_classifier(classify), cfg, &inner, origin, &log, &nest, &gate_s).build()
        } else {
            settings(start(cfg), cfg, &inner, origin, &log, &nest, &gate_s).failure_classifier(classify).build()
        };
        let svc = layer.clone().layer_fn(gi);
        if cfg.fallback {
            Box::new(Pair { plain: svc.clone(), converted: svc.with_fallback(fb.clone()) })
        } else {
            Box::new(svc)
        }
    } else {
        let layer = settings(start(cfg), cfg, &inner, origin, &log, &nest, &gate_s).build();
        let svc = layer.clone().layer_fn(gi);
        if cfg.fallback {
            Box::new(Pair { plain: svc.clone(), converted: svc.with_fallback(fb) })
        } else {
            Box::new(svc)
        }
    };
    (h, log, gate)
}
