//! C09 — half-open lets through at most the permitted trial calls (engine A).

use crate::handle::{build_nested, Cb, CbCfg, TransitionLog};
use std::sync::Arc;
use trv_core::nest::Nest;
use tower_resilience_circuitbreaker::CircuitState;
use trv_core::inner::{Out, Req};
use trv_core::svcx::{self, Action, Counts, Scenario, Viol};
use trv_core::world::{Outcome, Phase, World};

pub struct C09 {
    pub cfg: CbCfg,
    pub callers: usize,
    pub max_ticks: usize,
    pub max_drops: usize,
    /// true: start from a breaker that was forced open and whose wait has elapsed;
    /// false: start closed and let the exploration open it through failures
    pub prepared: bool,
    /// start in the second half-open-ready period with a *straggler*: two trial calls were
    /// admitted in a first half-open period, one failed (breaker re-opened, wait elapsed
    /// again), the other is still running and may be cancelled at any point
    pub straggler: bool,
    /// emulated lock contention: up to this many times the explorer arms a caller to be polled
    /// from inside another caller's critical section (see trv_core::nest)
    pub nested: usize,
    /// explorer time grid (ms): 10, or 1010 for the seconds-range configuration
    pub grid: u64,
    /// force_open() may be called this many times during the exploration (a breaker that is
    /// tripped by hand or by a health trigger while trial calls are still running)
    pub max_force: usize,
    /// the executor may leave a caller unpolled while this many ticks pass (a call future that
    /// was created while the breaker was closed and is first polled much later)
    pub late_ticks: usize,
}

const FORCE_OPEN: u8 = 200;

pub struct X {
    nest: Option<Arc<Nest>>,
    svc: Box<dyn Cb>,
    tl: TransitionLog,
    pre_trials_full: bool,
    pre_had_inner: bool,
    saw_reject_beyond: bool,
}

fn has_inner(w: &World, c: usize) -> bool {
    match &w.callers[c].req {
        Some(r) => !w.inner_calls_for_req(r.id).is_empty(),
        None => false,
    }
}

impl C09 {
    /// (trial calls started in the current half-open period, is the breaker half-open now)
    fn current_period(&self, w: &World, x: &X) -> (usize, bool) {
        let tl = x.tl.lock().unwrap();
        match tl.last() {
            Some(&(_, s1, _, CircuitState::HalfOpen)) => {
                let g = w.inner.lock().unwrap();
                (g.calls.iter().filter(|k| k.start_step >= s1 && k.status != trv_core::inner::CallStatus::Dropped).count(), true)
            }
            _ => (0, false),
        }
    }
}

impl Scenario for C09 {
    type X = X;
    fn property(&self) -> &'static str {
        "C09"
    }
    fn label(&self) -> String {
        format!("c09 {} callers={} prepared={}{}", self.cfg.label(), self.callers, self.prepared, if self.max_force > 0 { " force_open-during-exploration" } else if self.straggler { " straggler-from-earlier-half-open-period" } else if self.nested > 0 { " nested-polls" } else { "" })
    }
    fn callers(&self) -> usize {
        self.callers
    }
    fn grid_ms(&self) -> u64 {
        self.grid
    }
    fn late_ticks(&self) -> usize {
        self.late_ticks
    }
    fn init(&self, w: &mut World) -> X {
        let nest = if self.nested > 0 { Some(Nest::new()) } else { None };
        let (svc, tl) = build_nested(&self.cfg, w.inner.clone(), w.origin, nest.clone());
        if self.prepared {
            w.block_on(svc.force_open());
            w.advance(self.cfg.wait_ms);
        }
        let mut x = X { nest, svc, tl, pre_trials_full: false, pre_had_inner: false, saw_reject_beyond: false };
        if self.straggler {
            // first half-open period: callers 0 and 1 become trial calls, 0 fails
            self.arrive(w, &mut x, 0, 0);
            w.poll_caller(0);
            self.arrive(w, &mut x, 1, 0);
            w.poll_caller(1);
            w.complete(0, Out::Err(0));
            w.poll_caller(0);
            w.advance(self.cfg.wait_ms);
        }
        x
    }
    fn arrive(&self, w: &mut World, x: &mut X, c: usize, _v: u8) {
        let mut h = x.svc.clone_box();
        let req = Req::new(c as u32, 0);
        let fut = h.start_call(req.clone());
        let fut = match &x.nest {
            Some(n) => n.wrap(c, fut, w.callers[c].flag.clone()),
            None => fut,
        };
        w.set_arrived(c, req, fut);
    }
    fn ctl_actions(&self, w: &World, x: &X) -> Vec<u8> {
        // arm caller j: the next listener firing inside someone else's critical section polls it
        let mut v: Vec<u8> = match &x.nest {
            Some(n) if n.armed().is_none() => (0..w.callers.len().min(self.callers)).filter(|&j| w.pollable(j)).map(|j| j as u8).collect(),
            _ => vec![],
        };
        if self.max_force > 0 {
            v.push(FORCE_OPEN);
        }
        v
    }
    fn apply_ctl(&self, w: &mut World, x: &mut X, ctl: u8) {
        if ctl == FORCE_OPEN {
            w.block_on(x.svc.force_open());
            return;
        }
        if let Some(n) = &x.nest {
            n.arm(ctl as usize);
        }
    }
    fn outs(&self) -> Vec<Out> {
        if self.cfg.custom_classifier {
            // errors of kind 1 are ones the custom classifier does not count as failures
            vec![Out::Ok, Out::Err(0), Out::Err(1)]
        } else {
            vec![Out::Ok, Out::Err(0)]
        }
    }
    fn allow(&self, _w: &World, _x: &X, h: &[Action], a: &Action) -> bool {
        let c = Counts::of(h);
        match a {
            Action::Tick => c.ticks < self.max_ticks,
            Action::Drop(_) => c.drops < self.max_drops,
            Action::Ctl(FORCE_OPEN) => h.iter().filter(|a| matches!(a, Action::Ctl(FORCE_OPEN))).count() < self.max_force,
            Action::Ctl(_) => h.iter().filter(|a| matches!(a, Action::Ctl(c) if *c != FORCE_OPEN)).count() < self.nested,
            _ => true,
        }
    }
    fn fingerprint(&self, w: &World, x: &X) -> String {
        let (trials, _) = self.current_period(w, x);
        if let Some(n) = &x.nest {
            // metrics() awaits the circuit lock, which a caller queued by a nested poll may own
            // (fair hand-over) until it is polled again: only lock-free views here. The window
            // contents are determined by the outcomes of the finished calls, which the core
            // fingerprint lists in order.
            return format!("{:?}/{}/{:?}/{:?}", x.svc.state_sync(), trials, n.armed(), n.fired());
        }
        let m = w.block_on(x.svc.metrics());
        let tsc = if m.state == CircuitState::Open { m.time_since_state_change.as_millis() as i64 } else { -1 };
        let armed = x.nest.as_ref().map(|n| (n.armed(), n.fired()));
        format!("{:?}/{}/{}/{}/{}/{}/{}/{:?}", m.state, m.total_calls, m.failure_count, m.success_count, m.slow_call_count, tsc, trials, armed)
    }
    fn before(&self, w: &World, x: &mut X, a: &Action) {
        let (trials, half) = self.current_period(w, x);
        x.pre_trials_full = half && trials >= self.cfg.permitted;
        // A caller queued on the circuit lock by a nested poll owns the lock from the moment it
        // is handed over until it is polled again (its thread would run on at once; here the
        // explorer may poll somebody else first, who then has to queue behind it): "rejected at
        // once" is only judged for polls that find nobody else waiting to be polled.
        if x.nest.is_some() {
            if let Action::Poll(c) = a {
                if (0..w.callers.len()).any(|o| o != *c as usize && w.callers[o].polls > 0 && w.needs_poll(o)) || x.nest.as_ref().map_or(false, |n| n.fired().iter().any(|(j, _)| w.callers[*j].is_live() && w.needs_poll(*j) && *j != *c as usize)) {
                    x.pre_trials_full = false;
                }
            }
        }
        x.pre_had_inner = match a {
            Action::Poll(c) => has_inner(w, *c as usize),
            _ => false,
        };
    }
    fn after(&self, w: &mut World, x: &mut X, a: &Action, out: &mut Vec<Viol>) {
        let site = self.cfg.site();
        // every half-open period: trial calls started <= permitted
        let tl = x.tl.lock().unwrap().clone();
        for (i, t) in tl.iter().enumerate() {
            if t.3 != CircuitState::HalfOpen {
                continue;
            }
            let s1 = t.1;
            let s2 = tl.get(i + 1).map(|n| n.1).unwrap_or(usize::MAX);
            let g = w.inner.lock().unwrap();
            // a trial call that was cancelled produced no outcome and gives its slot back
            // (cancellation is outside C09's quantifier); everything else counts
            let trials: Vec<usize> = g
                .calls
                .iter()
                .filter(|k| k.start_step >= s1 && k.start_step < s2.max(s1 + 1) && k.status != trv_core::inner::CallStatus::Dropped)
                .map(|k| k.k)
                .collect();
            if trials.len() > self.cfg.permitted {
                out.push(Viol::new(
                    "halfopen_overadmit",
                    site,
                    format!("half-open period entered at {}ms let {} calls {:?} reach the inner service (permitted_calls_in_half_open={})", t.0, trials.len(), trials, self.cfg.permitted),
                ));
                break;
            }
        }
        if let Action::Poll(c) = a {
            let c = *c as usize;
            if x.pre_trials_full && !x.pre_had_inner {
                match &w.callers[c].phase {
                    Phase::Done(Outcome::Layer(t)) if t == "Open" && !self.cfg.fallback => x.saw_reject_beyond = true,
                    // with_fallback: a caller that is turned away is answered by the fallback
                    Phase::Done(Outcome::Ok(r)) if self.cfg.fallback && r.serial == crate::handle::FALLBACK_SERIAL => x.saw_reject_beyond = true,
                    other => {
                        if !has_inner(w, c) {
                            out.push(Viol::new("beyond_permitted_not_rejected", site, format!("caller {c} arrived with all trial slots taken; expected rejection at once, got {:?}", other)));
                        }
                    }
                }
            }
        }
    }
    fn witnesses(&self, w: &World, x: &X, h: &[Action]) -> Vec<&'static str> {
        let mut v = vec![];
        if x.saw_reject_beyond {
            v.push("rejected_beyond_permitted");
        }
        let (trials, half) = self.current_period(w, x);
        if half && trials >= 1 && w.inner_live() >= 1 {
            v.push("trial_call_in_flight");
        }
        if half && (0..w.callers.len()).filter(|&c| w.callers[c].is_live() && w.callers[c].polls == 0).count() >= 2 {
            v.push("two_callers_arrive_while_half_open");
        }
        let tl = x.tl.lock().unwrap();
        if tl.iter().any(|t| t.2 == CircuitState::HalfOpen && t.3 == CircuitState::Closed) {
            v.push("closed_after_trials");
        }
        if tl.iter().any(|t| t.2 == CircuitState::HalfOpen && t.3 == CircuitState::Open) {
            v.push("reopened_after_failed_trial");
        }
        if let Some(Action::Drop(c)) = h.last() {
            if has_inner(w, *c as usize) && half {
                v.push("trial_call_cancelled");
            }
        }
        if x.nest.as_ref().map_or(false, |n| !n.fired().is_empty()) {
            v.push("caller_polled_inside_another_callers_critical_section");
        }
        v
    }
    fn epilogue(&self, w: &mut World, x: &mut X, out: &mut Vec<Viol>) -> String {
        let site = self.cfg.site();
        if !svcx::drain(w, 12) {
            out.push(Viol::new("caller_never_resolves", site, format!("callers {:?} unresolved after draining", w.live_callers())));
            return "stuck".into();
        }
        let mut v = vec![];
        self.after(w, x, &Action::Tick, &mut v);
        out.extend(v);
        let sig: Vec<String> = w.callers.iter().map(|c| match &c.phase { Phase::Done(o) => o.tag(), p => format!("{p:?}") }).collect();
        // the breaker must still be able to decide: with nothing in flight, within three
        // wait periods some fresh call must reach the inner service again
        let mut reached = false;
        for _ in 0..3 {
            let c = w.add_caller();
            w.begin_step();
            let mut h = x.svc.clone_box();
            let req = Req::new(100 + c as u32, 0);
            let fut = h.start_call(req.clone());
            w.set_arrived(c, req, fut);
            w.poll_caller(c);
            if has_inner(w, c) {
                reached = true;
            }
            svcx::drain(w, 6);
            if reached {
                break;
            }
            w.advance(self.cfg.wait_ms);
        }
        if !reached {
            out.push(Viol::new("breaker_stranded", site, format!("with nothing in flight, no fresh call reached the inner service within three wait periods (state {:?})", x.svc.state_sync())));
        }
        format!("{:?}/{}", sig, reached)
    }
}
