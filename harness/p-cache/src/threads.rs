//! C10, thread level (engine B): several OS threads look keys up through clones of one real
//! Cache (or through two services of one shared store); the scheduler explores every
//! interleaving of the store's critical sections (the repository's `verif-hooks` mutex yields
//! before every acquisition). Concurrent misses on one key may each call the inner service
//! (lookup and store are separate sections by design), so the outcomes are not compared with
//! one-at-a-time executions; instead: no panic, every response belongs to the request's key
//! and was produced by an inner call for that key, no more inner calls than requests, and
//! afterwards - one lookup per key, sequentially - at most max_size keys hit, each with a
//! response that was stored for it.

use std::future::Future;
use std::sync::{Arc, Mutex};
use std::task::{Context, Poll};
use tower::{Layer, Service};
use tower_resilience_cache::{CacheLayer, EvictionPolicy};
use trv_core::evidence::{Report, Tier};
use trv_core::ilv::{self, LinCheck, OpFn, Spec};
use trv_core::inner::{InnerErr, Req, Resp};

#[derive(Default)]
struct Log {
    next_serial: u32,
    /// (key, serial) of every inner call
    calls: Vec<(u8, u32)>,
}

#[derive(Clone)]
struct CountInner {
    log: Arc<Mutex<Log>>,
}

impl Service<Req> for CountInner {
    type Response = Resp;
    type Error = InnerErr;
    type Future = std::future::Ready<Result<Resp, InnerErr>>;
    fn poll_ready(&mut self, _cx: &mut Context<'_>) -> Poll<Result<(), InnerErr>> {
        Poll::Ready(Ok(()))
    }
    fn call(&mut self, req: Req) -> Self::Future {
        let mut g = self.log.lock().unwrap();
        g.next_serial += 1;
        let serial = g.next_serial;
        g.calls.push((req.key, serial));
        // (requests with an id of 100 and more fail: errors are not stored)
        if req.id >= 100 {
            return std::future::ready(Err(InnerErr { id: serial, kind: 0 }));
        }
        std::future::ready(Ok(Resp { serial, req: req.id, key: req.key }))
    }
}

type Svc = tower_resilience_cache::Cache<CountInner, Req, trv_core::inner::WeakKey, Resp>;

pub struct Shared {
    svcs: [Svc; 2],
    log: Arc<Mutex<Log>>,
    max_size: usize,
    keys: Vec<u8>,
}

#[derive(Clone)]
pub struct TCfg {
    pub policy: EvictionPolicy,
    pub max_size: usize,
    pub shared_store: bool,
    /// per thread: keys looked up, in order
    pub programs: Vec<Vec<u8>>,
}

fn pname(p: EvictionPolicy) -> &'static str {
    match p {
        EvictionPolicy::Lru => "lru",
        EvictionPolicy::Lfu => "lfu",
        EvictionPolicy::Fifo => "fifo",
    }
}

fn lookup(svc: &Svc, key: u8) -> i64 {
    lookup_as(svc, key, key as u32)
}

fn lookup_as(svc: &Svc, key: u8, id: u32) -> i64 {
    let mut s = svc.clone();
    let waker = ilv::noop_waker();
    let mut cx = Context::from_waker(&waker);
    match s.poll_ready(&mut cx) {
        Poll::Ready(Ok(())) => {}
        _ => return -9,
    }
    let mut fut = Box::pin(s.call(Req::new(id, key)));
    match fut.as_mut().poll(&mut cx) {
        Poll::Ready(Ok(r)) => {
            if r.key == key {
                r.serial as i64
            } else {
                -7
            }
        }
        Poll::Ready(Err(_)) => -2,
        Poll::Pending => -3,
    }
}

impl TCfg {
    pub fn label(&self) -> String {
        format!("cache threads policy={} max_size={} shared_store={} lookups_per_thread={:?}", pname(self.policy), self.max_size, self.shared_store, self.programs)
    }
    fn spec(&self) -> Spec<Shared, i64> {
        let me = self.clone();
        let mk = |t: usize, key: u8| -> OpFn<Shared, i64> { Arc::new(move |s: &Shared| lookup(&s.svcs[t % 2], key)) };
        let mut keys: Vec<u8> = self.programs.iter().flatten().copied().collect();
        keys.sort();
        keys.dedup();
        Spec {
            name: self.label(),
            make: Arc::new(move || {
                let log = Arc::new(Mutex::new(Log::default()));
                let layer = CacheLayer::<Req, trv_core::inner::WeakKey>::builder().max_size(me.max_size).eviction_policy(me.policy).key_extractor(|r: &Req| trv_core::inner::WeakKey(r.key)).build();
                let svcs = if me.shared_store {
                    let sl = layer.shared::<Resp>();
                    [sl.layer(CountInner { log: log.clone() }), sl.layer(CountInner { log: log.clone() })]
                } else {
                    let a = layer.layer(CountInner { log: log.clone() });
                    let b = a.clone();
                    [a, b]
                };
                Shared { svcs, log, max_size: me.max_size, keys: keys.clone() }
            }),
            threads: self.programs.iter().enumerate().map(|(t, ks)| ks.iter().map(|k| (format!("get(key {k})"), mk(t, *k))).collect()).collect(),
            install_hook: Arc::new(|| tower_resilience_core::verif::set_yield_hook(Some(Box::new(|op| ilv::yield_point(op))))),
            uninstall_hook: Arc::new(|| tower_resilience_core::verif::set_yield_hook(None)),
            step_check: Arc::new(|_s: &Shared| None),
            spurious: false,
        }
    }
}

pub fn configs(tier: Tier) -> Vec<TCfg> {
    let mut v = vec![];
    for policy in [EvictionPolicy::Lru, EvictionPolicy::Lfu, EvictionPolicy::Fifo] {
        for shared_store in [false, true] {
            if tier == Tier::Quick && shared_store && policy != EvictionPolicy::Lru {
                continue;
            }
            v.push(TCfg { policy, max_size: 1, shared_store, programs: vec![vec![0], vec![1]] });
            v.push(TCfg { policy, max_size: 2, shared_store, programs: vec![vec![0, 1], vec![0, 2]] });
            if tier == Tier::Thorough {
                v.push(TCfg { policy, max_size: 2, shared_store, programs: vec![vec![0], vec![1], vec![2]] });
                v.push(TCfg { policy, max_size: 1, shared_store, programs: vec![vec![0, 0], vec![0, 1]] });
            }
        }
    }
    v
}

fn observe(s: &Shared) -> String {
    format!("inner_calls={}", s.log.lock().unwrap().calls.len())
}

fn extra(x: &ilv::Execution<i64>, s: &Shared) -> Vec<(String, String)> {
    let mut v = vec![];
    let requests: usize = x.returns.iter().map(|t| t.len()).sum();
    let before: Vec<(u8, u32)> = s.log.lock().unwrap().calls.clone();
    for r in x.returns.iter().flatten() {
        match *r {
            -7 => v.push(("response_of_another_key".to_string(), "a lookup received the response of another key".to_string())),
            r if r < 0 => v.push(("lookup_failed".to_string(), format!("a lookup ended with code {r}"))),
            r => {
                if !before.iter().any(|(_, s)| *s as i64 == r) {
                    v.push(("response_from_nowhere".to_string(), format!("a lookup returned serial {r}, which no inner call produced")));
                }
            }
        }
    }
    if before.len() > requests {
        v.push(("more_inner_calls_than_requests".to_string(), format!("{} inner calls for {requests} lookups", before.len())));
    }
    if before.len() < requests {
        v.push(("witness:thread_lookup_hit".to_string(), String::new()));
    }
    // afterwards, one lookup per key: a hit must return a response stored for that key, and
    // no more than max_size keys can hit
    let mut hits = 0;
    for k in &s.keys {
        let n0 = s.log.lock().unwrap().calls.len();
        let r = lookup(&s.svcs[0], *k);
        let n1 = s.log.lock().unwrap().calls.len();
        if n1 == n0 {
            hits += 1;
            if !before.iter().any(|(bk, bs)| bk == k && *bs as i64 == r) {
                v.push(("hit_with_a_response_never_stored_for_the_key".to_string(), format!("key {k} hit with serial {r}; inner calls before: {before:?}")));
            }
        }
        // (a miss stores the key and may evict another one: count only what was there before)
        if n1 > n0 && hits + 1 > s.max_size {
            // further keys can no longer be told apart from freshly evicted ones
            break;
        }
    }
    if hits > s.max_size {
        v.push(("more_entries_than_max_size".to_string(), format!("{hits} keys hit after the run with max_size {}", s.max_size)));
    }
    v
}

fn lin<'a>(cfg: &TCfg, spec: &'a Spec<Shared, i64>, tier: Tier) -> LinCheck<'a, Shared, i64> {
    LinCheck {
        property: "C10",
        site: "cache_threads",
        label: cfg.label(),
        spec,
        bounds: tier.pick(vec![Some(0), Some(1), Some(2)], vec![Some(0), Some(1), Some(2), Some(3), None]),
        max_schedules: tier.pick(100_000, 1_000_000),
        observe: &observe,
        extra: &extra,
        linearizable: false,
    }
}

pub fn run(tier: Tier, rep: &mut Report) {
    for cfg in configs(tier) {
        let spec = cfg.spec();
        let c = lin(&cfg, &spec, tier);
        ilv::set_deadline(Some(std::time::Instant::now() + std::time::Duration::from_secs(tier.pick(20, 120))));
        ilv::check_linearizable(&c, rep);
    }
    ilv::set_deadline(None);
}

pub fn replay(label: &str, choices: &[usize], kind: &str) -> Option<bool> {
    let mut all = configs(Tier::Quick);
    all.extend(configs(Tier::Thorough));
    for cfg in all {
        if cfg.label() == label {
            let spec = cfg.spec();
            let c = lin(&cfg, &spec, Tier::Thorough);
            return Some(ilv::replay_schedule(&c, choices, kind));
        }
    }
    None
}


// ---------------------------------------------------------------------------------------
// an expired entry looked up by two threads at once

/// One key, TTL 20 ms. The entry is stored at 0 ms, the clock (shared by the threads, see
/// trv_core::clock::shared_*) then stands at 30 ms: the entry has expired. Thread A looks the
/// key up with a request whose inner call fails (nothing is stored), thread B with one whose
/// inner call succeeds (its response is stored, unexpired). Whatever the interleaving of the
/// store's critical sections, the returns and a final lookup (must hit B's response unless B
/// itself hit) are those of some one-at-a-time order.
pub struct Expired {
    svcs: [Svc; 2],
    log: Arc<Mutex<Log>>,
}

fn expired_spec() -> Spec<Expired, i64> {
    let a: OpFn<Expired, i64> = Arc::new(|s: &Expired| lookup_as(&s.svcs[0], 0, 100));
    let b: OpFn<Expired, i64> = Arc::new(|s: &Expired| lookup_as(&s.svcs[1], 0, 1));
    Spec {
        name: "cache threads policy=lru max_size=2 ttl=20ms: an expired entry, two lookups of its key at once (one inner call fails)".to_string(),
        make: Arc::new(|| {
            trv_core::clock::shared_enable();
            trv_core::clock::shared_set_ms(0);
            let log = Arc::new(Mutex::new(Log::default()));
            let layer = CacheLayer::<Req, trv_core::inner::WeakKey>::builder().max_size(2).ttl(std::time::Duration::from_millis(20)).eviction_policy(EvictionPolicy::Lru).key_extractor(|r: &Req| trv_core::inner::WeakKey(r.key)).build();
            let x = layer.layer(CountInner { log: log.clone() });
            let y = x.clone();
            let first = lookup_as(&x, 0, 0);
            assert!(first > 0, "setup: the first lookup stores the entry");
            trv_core::clock::shared_set_ms(30);
            Expired { svcs: [x, y], log }
        }),
        threads: vec![vec![("get(key 0), inner fails".to_string(), a)], vec![("get(key 0), inner ok".to_string(), b)]],
        install_hook: Arc::new(|| {
            trv_core::clock::shared_enable();
            tower_resilience_core::verif::set_yield_hook(Some(Box::new(|op| ilv::yield_point(op))))
        }),
        uninstall_hook: Arc::new(|| {
            tower_resilience_core::verif::set_yield_hook(None);
            trv_core::clock::shared_disable();
        }),
        step_check: Arc::new(|_s: &Expired| None),
        spurious: false,
    }
}

fn expired_observe(s: &Expired) -> String {
    format!("inner_calls={}", s.log.lock().unwrap().calls.len())
}

/// (Lookup and store are separate critical sections by design, so whole lookups are not
/// linearizable and are not compared with one-at-a-time orders. What must hold: thread B's
/// inner call succeeded and its response was stored last - nothing was stored after it, A's
/// inner call failed - so a final lookup hits exactly that response.)
fn expired_extra(x: &ilv::Execution<i64>, s: &Expired) -> Vec<(String, String)> {
    let mut v = vec![];
    let b = x.returns[1].first().copied().unwrap_or(-9);
    let a = x.returns[0].first().copied().unwrap_or(-9);
    if b <= 0 {
        v.push(("lookup_failed".to_string(), format!("thread B's lookup ended with code {b}")));
        return v;
    }
    trv_core::clock::shared_enable();
    let n0 = s.log.lock().unwrap().calls.len();
    let r = lookup_as(&s.svcs[0], 0, 2);
    let n1 = s.log.lock().unwrap().calls.len();
    if n1 != n0 {
        v.push(("stored_response_lost".to_string(), format!("thread B stored response {b} for the key (thread A's lookup returned {a}); nothing was stored after it and it has not expired, but a final lookup missed and called the inner service")));
    } else if r != b && a != r {
        v.push(("hit_with_a_response_never_stored_for_the_key".to_string(), format!("final lookup hit {r}; thread B stored {b}, thread A returned {a}")));
    }
    if a == -2 {
        v.push(("witness:expired_entry_met_by_two_threads".to_string(), String::new()));
    }
    v
}

pub fn run_expired(tier: Tier, rep: &mut Report) {
    let spec = expired_spec();
    let c = LinCheck {
        property: "C10",
        site: "cache_threads_expired_entry",
        label: spec.name.clone(),
        spec: &spec,
        bounds: tier.pick(vec![Some(0), Some(1), Some(2)], vec![Some(0), Some(1), Some(2), Some(3), None]),
        max_schedules: 100_000,
        observe: &expired_observe,
        extra: &expired_extra,
        linearizable: false,
    };
    ilv::check_linearizable(&c, rep);
    trv_core::clock::shared_disable();
}

pub fn replay_expired(choices: &[usize], kind: &str) -> bool {
    let spec = expired_spec();
    let c = LinCheck { property: "C10", site: "cache_threads_expired_entry", label: spec.name.clone(), spec: &spec, bounds: vec![None], max_schedules: 100_000, observe: &expired_observe, extra: &expired_extra, linearizable: false };
    let r = ilv::replay_schedule(&c, choices, kind);
    trv_core::clock::shared_disable();
    r
}
