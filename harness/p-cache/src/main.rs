//! C10 — cache hits are fresh and right-keyed; size bounded; victims by policy.
//! Engine C (history BFS against a set-valued reference cache) + a small engine-A scenario
//! for concurrent misses on one key.

use serde_json::json;
use std::time::Duration;
use tower::{Layer, Service};
use tower_resilience_cache::{CacheError, CacheLayer, EvictionPolicy};
use trv_core::evidence::{Report, Tier};
use trv_core::inner::{GatedInner, InnerErr, Mode, Out, Plan, Req, Resp};
use trv_core::seq::{self, SeqOut, SeqScenario};
use trv_core::svcx::{self, Action, Opts, Scenario, Viol};
use trv_core::world::{drive_ready, CallerFut, Outcome, Phase, World};

mod threads;

trv_core::install_clock_seam!();

const Q: u64 = 10;

type Svc = tower_resilience_cache::Cache<GatedInner, Req, trv_core::inner::WeakKey, Resp>;

fn pname(p: EvictionPolicy) -> &'static str {
    match p {
        EvictionPolicy::Lru => "lru",
        EvictionPolicy::Lfu => "lfu",
        EvictionPolicy::Fifo => "fifo",
    }
}

/// TTL value standing for `ttl(Duration::MAX)`: entries are kept for ever
const TTL_FOREVER: u64 = u64::MAX / 4;

#[derive(Clone)]
struct CacheCfg {
    policy: EvictionPolicy,
    max_size: usize,
    ttl: Option<u64>,
    shared: bool,
    keys: u8,
}

impl CacheCfg {
    fn label(&self) -> String {
        format!("cache policy={} max_size={} ttl={:?} shared_store={} keys={}", pname(self.policy), self.max_size, self.ttl, self.shared, self.keys)
    }
    /// time quantum of the wait operation (ms): 10 ms for the millisecond-range TTLs; half the
    /// TTL for the seconds-range one (1.5 s: ages of 0.75 s, 1.5 s, 2.25 s, 3 s ... - whole
    /// seconds and sub-second parts on both sides of the TTL's own)
    fn q(&self) -> u64 {
        match self.ttl {
            Some(t) if t >= 1000 && t != TTL_FOREVER => t / 2,
            _ => Q,
        }
    }
    /// two service handles over one store: clones of one service (private store) or two
    /// services produced by one SharedCacheLayer
    fn build(&self, inner: trv_core::inner::Shared) -> (Svc, Svc) {
        let mut b = CacheLayer::<Req, trv_core::inner::WeakKey>::builder().max_size(self.max_size).eviction_policy(self.policy).key_extractor(|r: &Req| trv_core::inner::WeakKey(r.key));
        if let Some(t) = self.ttl {
            b = b.ttl(if t == TTL_FOREVER { Duration::MAX } else { Duration::from_millis(t) });
        }
        // (max_size 2: a no-op listener is registered for every event type)
        if self.max_size == 2 {
            b = b.on_hit(|| {}).on_miss(|| {}).on_eviction(|| {});
        }
        // (shared store with max_size 1: made by SharedCacheLayer's own builder, which duplicates
        // the settings of the plain one)
        if self.shared && self.max_size == 1 {
            let mut sb = tower_resilience_cache::SharedCacheLayer::<Req, trv_core::inner::WeakKey, Resp>::builder().max_size(self.max_size).eviction_policy(self.policy).key_extractor(|r: &Req| trv_core::inner::WeakKey(r.key));
            if let Some(t) = self.ttl {
                sb = sb.ttl(if t == TTL_FOREVER { Duration::MAX } else { Duration::from_millis(t) });
            }
            let sl = sb.build();
            return (sl.clone().layer(GatedInner::new(inner.clone())), sl.layer(GatedInner::new(inner)));
        }
        let layer = b.build();
        if self.shared {
            let sl = layer.shared::<Resp>();
            (sl.clone().layer(GatedInner::new(inner.clone())), sl.layer(GatedInner::new(inner)))
        } else {
            let a = layer.clone().layer(GatedInner::new(inner));
            let b = a.clone();
            (a, b)
        }
    }
}

// ---------------------------------------------------------------------------------------
// set-valued reference cache

#[derive(Clone, Debug, PartialEq, Eq, PartialOrd, Ord)]
struct Entry {
    key: u8,
    serial: u32,
    at: u64,
    freq: usize,
    /// LRU recency / FIFO insertion stamp
    stamp: u64,
}

#[derive(Clone, Debug, PartialEq, Eq, PartialOrd, Ord)]
struct Model {
    entries: Vec<Entry>,
    clock: u64,
    /// History digest kept in the dedup key although the reference cache itself does not need
    /// it: how often entries were removed by expiry / by eviction / overwritten in place
    /// (capped), and which keys were ever removed by expiry.  The implementation's hidden
    /// bookkeeping (order queues, frequency maps) is touched by exactly these events, so two
    /// histories with the same cache contents but different removal histories are explored
    /// separately (a finer key is always sound; it only costs time).
    expiries: u8,
    evictions: u8,
    overwrites: u8,
    expired_keys: u8,
}

enum Lookup {
    Hit(u32),
    Miss,
}

impl Model {
    fn canon(&self, now: u64, ttl: Option<u64>) -> String {
        self.canon_with(now, ttl, &|s| s)
    }
    /// `rank`: how a stored serial is rendered (the dedup key of the history search renders it
    /// as its rank among all serials of the candidate set: only equality of serials matters to
    /// what can happen next, their absolute values depend on how many inner calls - also
    /// failed ones - happened before)
    fn canon_with(&self, now: u64, ttl: Option<u64>, rank: &dyn Fn(u32) -> u32) -> String {
        // relative ages (capped beyond the TTL) and rank-normalised stamps
        let mut es = self.entries.clone();
        es.sort_by_key(|e| e.stamp);
        let v: Vec<String> = es
            .iter()
            .map(|e| {
                let age = now - e.at;
                let age = match ttl {
                    Some(t) => age.min(t + 1),
                    None => 0,
                };
                format!("k{}s{}a{}f{}", e.key, rank(e.serial), age, e.freq)
            })
            .collect();
        format!("{}|x{}e{}o{}k{}", v.join(","), self.expiries, self.evictions, self.overwrites, self.expired_keys)
    }
    /// all admissible ways a lookup of `key` at `now` may go; returns (lookup, next model)
    fn lookups(&self, cfg: &CacheCfg, key: u8, now: u64) -> Vec<(Lookup, Model)> {
        let mut out = vec![];
        let Some(i) = self.entries.iter().position(|e| e.key == key) else {
            return vec![(Lookup::Miss, self.clone())];
        };
        let e = &self.entries[i];
        let age = now - e.at;
        let (may_hit, may_miss) = match cfg.ttl {
            None => (true, false),
            Some(t) => (age <= t, age >= t),
        };
        if may_hit {
            let mut m = self.clone();
            m.clock += 1;
            let c = m.clock;
            let en = &mut m.entries[i];
            en.freq += 1;
            if cfg.policy == EvictionPolicy::Lru {
                en.stamp = c;
            }
            out.push((Lookup::Hit(e.serial), m));
        }
        if may_miss {
            // the expired entry is dropped at (or before) this lookup
            let mut m = self.clone();
            m.entries.remove(i);
            m.expiries = (m.expiries + 1).min(2);
            m.expired_keys |= 1 << key;
            out.push((Lookup::Miss, m));
        }
        out
    }
    /// all admissible results of storing (key, serial) at `now`
    fn inserts(&self, cfg: &CacheCfg, key: u8, serial: u32, now: u64) -> Vec<Model> {
        let mut base = self.clone();
        base.clock += 1;
        let c = base.clock;
        if let Some(i) = base.entries.iter().position(|e| e.key == key) {
            let en = &mut base.entries[i];
            en.serial = serial;
            en.at = now;
            en.freq += 1;
            if cfg.policy == EvictionPolicy::Lru {
                en.stamp = c;
            }
            base.overwrites = (base.overwrites + 1).min(2);
            return vec![base];
        }
        let fresh = Entry { key, serial, at: now, freq: 1, stamp: c };
        if base.entries.len() < cfg.max_size {
            base.entries.push(fresh);
            return vec![base];
        }
        // full: the policy's victim (ties: any), or any entry that is already expired
        let mut victims: Vec<usize> = vec![];
        match cfg.policy {
            EvictionPolicy::Lru | EvictionPolicy::Fifo => {
                let m = base.entries.iter().map(|e| e.stamp).min().unwrap();
                victims.push(base.entries.iter().position(|e| e.stamp == m).unwrap());
            }
            EvictionPolicy::Lfu => {
                let m = base.entries.iter().map(|e| e.freq).min().unwrap();
                for (i, e) in base.entries.iter().enumerate() {
                    if e.freq == m {
                        victims.push(i);
                    }
                }
            }
        }
        if let Some(t) = cfg.ttl {
            for (i, e) in base.entries.iter().enumerate() {
                if now - e.at >= t && !victims.contains(&i) {
                    victims.push(i);
                }
            }
        }
        victims
            .into_iter()
            .map(|v| {
                let mut m = base.clone();
                m.entries.remove(v);
                m.entries.push(fresh.clone());
                m.evictions = (m.evictions + 1).min(2);
                m
            })
            .collect()
    }
}

#[derive(Clone, Debug)]
enum Op {
    Get { key: u8, ok: bool, svc: u8 },
    Tick,
    /// wait until everything stored so far has expired
    LongWait,
    /// two overlapping calls for one key whose stores are staggered, with a lookup in
    /// between: call 1 and call 2 are issued together, call 1 resolves (store), the key is
    /// looked up once more (normally a hit), then call 2 resolves (overwrites the entry)
    Staggered { key: u8 },
}

/// Advance the candidate set by one observed lookup: `missed` = the call reached the inner
/// service; for a hit, `hit` carries the returned response.
fn apply_lookup(cands: &[Model], cfg: &CacheCfg, key: u8, now: u64, missed: bool, hit: Option<&Resp>) -> Vec<Model> {
    let mut next = vec![];
    for c in cands {
        for (lk, m) in c.lookups(cfg, key, now) {
            match (lk, missed) {
                (Lookup::Hit(s), false) => {
                    if hit.map_or(true, |r| r.serial == s && r.key == key) {
                        next.push(m);
                    }
                }
                (Lookup::Miss, true) => next.push(m),
                _ => {}
            }
        }
    }
    next.sort();
    next.dedup();
    next
}

fn apply_insert(cands: &[Model], cfg: &CacheCfg, key: u8, serial: u32, now: u64) -> Vec<Model> {
    let mut next = vec![];
    for c in cands {
        next.extend(c.inserts(cfg, key, serial, now));
    }
    next.sort();
    next.dedup();
    next
}

struct C10 {
    cfg: CacheCfg,
    /// after every history (also those merged into a known state) look every key up once
    /// more, in lock-step with the reference cache: hidden state carried across a merge
    /// (a stale queue entry, a wrong use count) then surfaces. Thorough tier.
    probe: bool,
}

impl C10 {
    fn alphabet(&self) -> Vec<Op> {
        let mut v = vec![];
        for key in 0..self.cfg.keys {
            v.push(Op::Get { key, ok: true, svc: 0 });
        }
        for key in 0..self.cfg.keys {
            v.push(Op::Get { key, ok: true, svc: 1 });
        }
        for key in 0..self.cfg.keys.min(2) {
            v.push(Op::Get { key, ok: false, svc: 0 });
        }
        for key in 0..self.cfg.keys.min(2) {
            v.push(Op::Staggered { key });
        }
        if let Some(t) = self.cfg.ttl {
            v.push(Op::Tick);
            if t > self.cfg.q() {
                v.push(Op::LongWait);
            }
        }
        v
    }
}

fn op_name(o: &Op) -> String {
    match o {
        Op::Get { key, ok, svc } => format!("get_{}_inner_{}_via_{}", (b'A' + key) as char, if *ok { "ok" } else { "err" }, if *svc == 0 { "svc1" } else { "svc2" }),
        Op::Tick => "wait_one_quantum".to_string(),
        Op::LongWait => "wait_until_all_expired".to_string(),
        Op::Staggered { key } => format!("two_overlapping_gets_of_{}_with_a_lookup_between_their_stores", (b'A' + key) as char),
    }
}

impl SeqScenario for C10 {
    fn property(&self) -> &'static str {
        "C10"
    }
    fn label(&self) -> String {
        self.cfg.label()
    }
    fn ops(&self) -> Vec<String> {
        self.alphabet().iter().map(op_name).collect()
    }
    fn run(&self, hist: &[usize], trace: bool) -> SeqOut {
        let cfg = &self.cfg;
        let site = pname(cfg.policy);
        let alpha = self.alphabet();
        let mut w = World::new(0, cfg.q(), Mode::Script, 1);
        let (mut s1, mut s2) = cfg.build(w.inner.clone());
        let mut cands = vec![Model { entries: vec![], clock: 0, expiries: 0, evictions: 0, overwrites: 0, expired_keys: 0 }];
        let mut viols = vec![];
        let mut log = vec![];
        let mut outcome = String::new();
        let mut witnesses = vec![];
        let mut req_id = 0u32;
        let probe_ops: Vec<usize> = if self.probe { alpha.iter().enumerate().filter(|(_, o)| matches!(o, Op::Get { ok: true, svc: 0, .. })).map(|(i, _)| i).collect() } else { vec![] };
        let all: Vec<usize> = hist.iter().copied().chain(probe_ops).collect();
        let mut key_at_end: Option<String> = None;
        let canon_of = |cands: &Vec<Model>, now: u64| -> String {
            let mut serials: Vec<u32> = cands.iter().flat_map(|c| c.entries.iter().map(|e| e.serial)).collect();
            serials.sort();
            serials.dedup();
            let rank = |s: u32| serials.iter().position(|x| *x == s).unwrap_or(0) as u32;
            let mut cs: Vec<String> = cands.iter().map(|c| c.canon_with(now, cfg.ttl, &rank)).collect();
            cs.sort();
            cs.dedup();
            format!("{cs:?}")
        };
        if hist.is_empty() {
            key_at_end = Some(canon_of(&cands, w.now_ms()));
        }
        for (step, &oi) in all.iter().enumerate() {
            let op = &alpha[oi];
            let last = step + 1 == hist.len();
            match op {
                Op::Tick => {
                    w.advance(cfg.q());
                    if last {
                        outcome = "tick".into();
                    }
                }
                Op::LongWait => {
                    w.advance(cfg.ttl.filter(|t| *t != TTL_FOREVER).unwrap_or(0) + cfg.q());
                    if last {
                        outcome = "long_wait".into();
                    }
                }
                Op::Staggered { key } => {
                    let t0 = w.now_ms();
                    {
                        let mut g = w.inner.lock().unwrap();
                        g.script.clear();
                        g.script.push_back(Plan::after(10, Out::Ok));
                        g.script.push_back(Plan::after(20, Out::Ok));
                        g.default_plan = Plan::now(Out::Ok);
                    }
                    let fail = |cands: &Vec<Model>, what: &str, viols: &mut Vec<Viol>| {
                        viols.push(Viol::new("overlapping_gets_mismatch", site, format!("{} at {}ms: {what}; reference cache {:?}", op_name(op), t0, cands.iter().map(|c| c.canon(t0, cfg.ttl)).collect::<Vec<_>>())));
                    };
                    let calls_now = |w: &World| w.inner.lock().unwrap().calls.len();
                    // both calls are issued (lookups happen inside call())
                    req_id += 1;
                    let r1 = Req::new(req_id, *key);
                    req_id += 1;
                    let r2 = Req::new(req_id, *key);
                    let n0 = calls_now(&w);
                    let f1 = w.block_on(async {
                        let _ = futures::future::poll_fn(|cx| Service::<Req>::poll_ready(&mut s1, cx)).await;
                        s1.call(r1)
                    });
                    let n1 = calls_now(&w);
                    let f2 = w.block_on(async {
                        let _ = futures::future::poll_fn(|cx| Service::<Req>::poll_ready(&mut s2, cx)).await;
                        s2.call(r2)
                    });
                    let n2 = calls_now(&w);
                    let (m1, m2) = (n1 > n0, n2 > n1);
                    let mut next = apply_lookup(&cands, cfg, *key, t0, m1, None);
                    next = apply_lookup(&next, cfg, *key, t0, m2, None);
                    if next.is_empty() {
                        fail(&cands, &format!("first call {} and second call {} the inner service", if m1 { "reached" } else { "did not reach" }, if m2 { "reached" } else { "did not reach" }), &mut viols);
                        break;
                    }
                    // call 1 resolves
                    let res1 = w.block_on(f1);
                    let now1 = w.now_ms();
                    match (&res1, m1) {
                        (Ok(r), true) => next = apply_insert(&next, cfg, *key, r.serial, now1),
                        (Ok(_), false) => {}
                        (Err(_), _) => {
                            fail(&cands, "first call failed although the inner service answers ok", &mut viols);
                            break;
                        }
                    }
                    // a lookup in between
                    req_id += 1;
                    let r3 = Req::new(req_id, *key);
                    let n3 = calls_now(&w);
                    let res3 = w.block_on(async {
                        let _ = futures::future::poll_fn(|cx| Service::<Req>::poll_ready(&mut s1, cx)).await;
                        s1.call(r3).await
                    });
                    let m3 = calls_now(&w) > n3;
                    let now3 = w.now_ms();
                    let before3 = next.clone();
                    next = apply_lookup(&next, cfg, *key, now1, m3, if m3 { None } else { res3.as_ref().ok() });
                    if let (true, Ok(r)) = (m3, &res3) {
                        next = apply_insert(&next, cfg, *key, r.serial, now3);
                    }
                    if next.is_empty() {
                        fail(&before3, &format!("the lookup between the two stores {} the inner service and returned {:?}", if m3 { "reached" } else { "did not reach" }, res3), &mut viols);
                        break;
                    }
                    // call 2 resolves and overwrites
                    let res2 = w.block_on(f2);
                    let now2 = w.now_ms();
                    if let (Ok(r), true) = (&res2, m2) {
                        next = apply_insert(&next, cfg, *key, r.serial, now2);
                    }
                    if trace {
                        log.push(format!("{:>5}ms {} -> miss1={m1} miss2={m2} between: miss={m3} {:?}; results {:?} / {:?}", t0, op_name(op), res3, res1, res2));
                    }
                    if last {
                        outcome = format!("staggered:{m1}{m2}{m3}");
                        if m1 && m2 {
                            witnesses.push("entry_overwritten_by_late_second_store");
                        }
                    }
                    cands = next;
                }
                Op::Get { key, ok, svc } => {
                    let now = w.now_ms();
                    {
                        let mut g = w.inner.lock().unwrap();
                        g.script.clear();
                        g.script.push_back(Plan::now(if *ok { Out::Ok } else { Out::Err(0) }));
                    }
                    req_id += 1;
                    let req = Req::new(req_id, *key);
                    let before = w.inner.lock().unwrap().calls.len();
                    let svc_ref = if *svc == 0 { &mut s1 } else { &mut s2 };
                    let res = w.block_on(async {
                        let _ = futures::future::poll_fn(|cx| Service::<Req>::poll_ready(svc_ref, cx)).await;
                        svc_ref.call(req).await
                    });
                    let after = w.inner.lock().unwrap().calls.len();
                    let ncalls = after - before;
                    let called_with = if ncalls > 0 { Some(w.inner.lock().unwrap().calls[before].req.clone()) } else { None };
                    if trace {
                        log.push(format!("{:>5}ms {} -> inner calls {} result {:?}", now, op_name(op), ncalls, res));
                    }
                    if ncalls > 1 {
                        viols.push(Viol::new("miss_called_inner_more_than_once", site, format!("{} made {ncalls} inner calls", op_name(op))));
                        break;
                    }
                    if let Some(r) = &called_with {
                        if r.key != *key || r.id != req_id {
                            viols.push(Viol::new("request_changed", site, format!("inner saw request {:?} for {}", r, op_name(op))));
                        }
                    }
                    let mut next: Vec<Model> = vec![];
                    let mut reasons: Vec<String> = vec![];
                    for c in &cands {
                        for (lk, m) in c.lookups(cfg, *key, now) {
                            match (&lk, ncalls, &res) {
                                (Lookup::Hit(s), 0, Ok(r)) => {
                                    if r.serial == *s && r.key == *key {
                                        next.push(m);
                                    } else {
                                        reasons.push(format!("hit must return serial {s} of key {}", (b'A' + key) as char));
                                    }
                                }
                                (Lookup::Hit(s), _, _) => reasons.push(format!("expected a hit (serial {s})")),
                                (Lookup::Miss, 1, Ok(r)) => {
                                    if !*ok {
                                        reasons.push("inner failed but the call succeeded".into());
                                    } else {
                                        for m2 in m.inserts(cfg, *key, r.serial, now) {
                                            next.push(m2);
                                        }
                                    }
                                }
                                (Lookup::Miss, 1, Err(_)) => {
                                    if *ok {
                                        reasons.push("inner succeeded but the call failed".into());
                                    } else {
                                        next.push(m); // errors are never cached
                                    }
                                }
                                (Lookup::Miss, _, _) => reasons.push("expected a miss (exactly one inner call)".into()),
                            }
                        }
                    }
                    next.sort();
                    next.dedup();
                    if next.is_empty() {
                        reasons.sort();
                        reasons.dedup();
                        let kind = match (ncalls, &res) {
                            (0, Ok(r)) => {
                                // a hit the model does not allow: classify
                                let any_present = cands.iter().any(|c| c.entries.iter().any(|e| e.key == *key));
                                let any_value = cands.iter().any(|c| c.entries.iter().any(|e| e.key == *key && e.serial == r.serial));
                                if r.key != *key {
                                    "hit_of_another_key"
                                } else if !any_present {
                                    "hit_on_absent_key"
                                } else if !any_value {
                                    "hit_superseded_value"
                                } else {
                                    "hit_expired_entry"
                                }
                            }
                            (0, Err(_)) => "error_without_inner_call",
                            _ => "unexpected_miss",
                        };
                        viols.push(Viol::new(
                            kind,
                            site,
                            format!("{} at {now}ms: inner calls {ncalls}, result {:?}; reference cache {:?} allows only: {:?}", op_name(op), res, cands.iter().map(|c| c.canon(now, cfg.ttl)).collect::<Vec<_>>(), reasons),
                        ));
                        break;
                    }
                    if last {
                        outcome = format!("{}:{}", if ncalls == 0 { "hit" } else { "miss" }, res.is_ok());
                        if ncalls == 0 {
                            witnesses.push("hit");
                        }
                        if cands.iter().any(|c| c.entries.len() == cfg.max_size) && ncalls == 1 && *ok {
                            witnesses.push("insert_into_full_cache");
                        }
                        if next.len() > 1 {
                            witnesses.push("several_admissible_states");
                        }
                        if cfg.ttl.is_some() && cands.iter().any(|c| c.entries.iter().any(|e| e.key == *key && now - e.at > cfg.ttl.unwrap())) {
                            witnesses.push("lookup_of_expired_entry");
                        }
                        if cfg.ttl.is_some() && cands.iter().any(|c| c.entries.iter().any(|e| e.key == *key && now - e.at == cfg.ttl.unwrap())) {
                            witnesses.push("lookup_exactly_at_ttl");
                        }
                    }
                    if next.iter().any(|m| m.entries.len() > cfg.max_size) {
                        viols.push(Viol::new("model_overflow", site, "reference model exceeded max_size (machinery)".to_string()));
                    }
                    cands = next;
                }
            }
            if last {
                key_at_end = Some(canon_of(&cands, w.now_ms()));
            }
        }
        let key = key_at_end.unwrap_or_else(|| canon_of(&cands, w.now_ms()));
        let _ = (InnerErr { id: 0, kind: 0 }, CacheError::<InnerErr>::Inner);
        SeqOut { key, viols, outcome, witnesses, log, enabled: None }
    }
}

// ---------------------------------------------------------------------------------------
// engine A: concurrent misses on one key

struct Conc {
    policy: EvictionPolicy,
    callers: usize,
    keys: u8,
    max_size: usize,
}

impl Conc {
    fn cfg(&self) -> CacheCfg {
        CacheCfg { policy: self.policy, max_size: self.max_size, ttl: None, shared: false, keys: self.keys }
    }
}

struct X {
    svc: Svc,
    /// the set-valued reference cache, advanced at every lookup (inside call()) and at every
    /// store (when a miss resolves successfully)
    cands: Vec<Model>,
    counted: Vec<bool>,
    /// per caller: the serials a hit may return (None = the caller was a miss)
    hit_serials: Vec<Option<Vec<u32>>>,
    pending: Vec<Viol>,
}

impl Scenario for Conc {
    type X = X;
    fn property(&self) -> &'static str {
        "C10"
    }
    fn label(&self) -> String {
        format!("cache concurrent misses policy={} callers={} keys={} max_size={}", pname(self.policy), self.callers, self.keys, self.max_size)
    }
    fn callers(&self) -> usize {
        self.callers
    }
    fn init(&self, w: &mut World) -> X {
        let (svc, _) = self.cfg().build(w.inner.clone());
        X { svc, cands: vec![Model { entries: vec![], clock: 0, expiries: 0, evictions: 0, overwrites: 0, expired_keys: 0 }], counted: vec![false; 24], hit_serials: vec![None; 24], pending: vec![] }
    }
    fn arrive_variants(&self, _w: &World, _x: &X, _c: usize) -> Vec<u8> {
        (0..self.keys).collect()
    }
    fn arrive(&self, w: &mut World, x: &mut X, c: usize, v: u8) {
        let cfg = self.cfg();
        let mut s = x.svc.clone();
        let req = Req::new(c as u32, v);
        drive_ready::<_, Req>(&mut s, 4).expect("ready").ok();
        let before = w.inner.lock().unwrap().calls.len();
        let f = s.call(req.clone());
        let missed = w.inner.lock().unwrap().calls.len() > before;
        // the lookup happened inside call(): advance the reference cache accordingly
        let now = w.now_ms();
        let mut next = vec![];
        let mut serials = vec![];
        for cand in &x.cands {
            for (lk, m) in cand.lookups(&cfg, v, now) {
                match (lk, missed) {
                    (Lookup::Hit(sn), false) => {
                        serials.push(sn);
                        next.push(m);
                    }
                    (Lookup::Miss, true) => next.push(m),
                    _ => {}
                }
            }
        }
        next.sort();
        next.dedup();
        if next.is_empty() {
            let kind = if missed { "unexpected_miss" } else { "hit_on_absent_key" };
            x.pending.push(Viol::new(kind, pname(self.policy), format!("caller {c} key {v}: call() {} the inner service, but the reference cache {:?} says otherwise", if missed { "called" } else { "did not call" }, x.cands.iter().map(|m| m.canon(now, None)).collect::<Vec<_>>())));
        } else {
            x.cands = next;
        }
        x.hit_serials[c] = if missed { None } else { Some(serials) };
        let fut: CallerFut = Box::pin(async move {
            match f.await {
                Ok(r) => Outcome::Ok(r),
                Err(CacheError::Inner(e)) => Outcome::Inner(e),
            }
        });
        w.set_arrived(c, req, fut);
    }
    fn outs(&self) -> Vec<Out> {
        vec![Out::Ok, Out::Err(0)]
    }
    fn drops_enabled(&self) -> bool {
        false
    }
    fn ticks_enabled(&self) -> bool {
        false
    }
    fn allow(&self, _w: &World, _x: &X, _h: &[Action], _a: &Action) -> bool {
        true
    }
    fn fingerprint(&self, w: &World, x: &X) -> String {
        format!("{:?}", x.cands.iter().map(|m| m.canon(w.now_ms(), None)).collect::<Vec<_>>())
    }
    fn after(&self, w: &mut World, x: &mut X, _a: &Action, out: &mut Vec<Viol>) {
        let site = pname(self.policy);
        let cfg = self.cfg();
        out.append(&mut x.pending);
        for c in 0..w.callers.len().min(x.counted.len()) {
            let cl = &w.callers[c];
            let Some(req) = cl.req.clone() else { continue };
            let calls = w.inner_calls_for_req(req.id);
            if calls.len() > 1 {
                out.push(Viol::new("miss_called_inner_more_than_once", site, format!("caller {c} made {} inner calls", calls.len())));
            }
            if let Phase::Done(o) = &cl.phase {
                if x.counted[c] {
                    continue;
                }
                x.counted[c] = true;
                match (&x.hit_serials[c], o) {
                    (Some(allowed), Outcome::Ok(r)) => {
                        if r.key != req.key {
                            out.push(Viol::new("hit_of_another_key", site, format!("caller {c} asked for key {} and got {:?}", req.key, r)));
                        } else if !allowed.contains(&r.serial) {
                            out.push(Viol::new("hit_superseded_value", site, format!("caller {c} hit serial {} but the value most recently stored for key {} when it called was {:?}", r.serial, req.key, allowed)));
                        }
                    }
                    (Some(_), other) => out.push(Viol::new("error_without_inner_call", site, format!("caller {c} resolved {:?} without an inner call", other))),
                    (None, Outcome::Ok(r)) => {
                        // a miss that completed: its response is stored now
                        let now = w.now_ms();
                        let mut next = vec![];
                        for cand in &x.cands {
                            next.extend(cand.inserts(&cfg, req.key, r.serial, now));
                        }
                        next.sort();
                        next.dedup();
                        x.cands = next;
                    }
                    _ => {}
                }
            }
        }
    }
    fn witnesses(&self, w: &World, x: &X, _h: &[Action]) -> Vec<&'static str> {
        let mut v = vec![];
        let g = w.inner.lock().unwrap();
        for a in g.calls.iter() {
            for b in g.calls.iter() {
                if a.k < b.k && a.req.key == b.req.key && a.start_step <= b.start_step && a.end_step.map_or(true, |e| e > b.start_step) {
                    v.push("two_misses_on_one_key_in_flight");
                }
            }
        }
        if x.cands.iter().any(|m| m.overwrites > 0) {
            v.push("entry_overwritten_by_second_miss");
        }
        if x.cands.iter().any(|m| m.overwrites > 0 && m.evictions > 0) {
            v.push("eviction_after_overwrite");
        }
        v.dedup();
        v
    }
    fn epilogue(&self, w: &mut World, x: &mut X, out: &mut Vec<Viol>) -> String {
        if !svcx::drain(w, 6) {
            out.push(Viol::new("caller_never_resolves", pname(self.policy), "unresolved callers".to_string()));
            return "stuck".into();
        }
        let mut v = vec![];
        self.after(w, x, &Action::Tick, &mut v);
        out.extend(v);
        // final probe: every key is looked up once more; hits and misses must match the reference
        for k in (0..self.keys).chain(0..self.keys) {
            let c = w.add_caller();
            if c >= x.counted.len() {
                break;
            }
            w.begin_step();
            self.arrive(w, x, c, k);
            w.poll_caller(c);
            // complete a probe miss so that the store is exercised too
            let gate = w.inner.lock().unwrap().gateable();
            for g in gate {
                w.complete(g, Out::Ok);
            }
            if w.callers[c].is_live() {
                w.poll_caller(c);
            }
            let mut v = vec![];
            self.after(w, x, &Action::Tick, &mut v);
            out.extend(v);
        }
        format!("{:?}", x.cands.iter().map(|m| m.canon(w.now_ms(), None)).collect::<Vec<_>>())
    }
}

fn conc_configs(tier: Tier) -> Vec<Conc> {
    let mut v = vec![];
    for policy in [EvictionPolicy::Lru, EvictionPolicy::Lfu, EvictionPolicy::Fifo] {
        v.push(Conc { policy, callers: tier.pick(3, 4), keys: 2, max_size: 2 });
        // with evictions; not for LFU: its victim among equal frequencies follows the
        // randomised HashMap iteration order, which stateless re-execution cannot replay
        // (LFU evictions are covered by the sequential part, where every run stands alone)
        if policy != EvictionPolicy::Lfu {
            v.push(Conc { policy, callers: tier.pick(3, 4), keys: 3, max_size: 2 });
        }
    }
    v
}

fn grid(tier: Tier) -> Vec<CacheCfg> {
    let mut v = vec![];
    for policy in [EvictionPolicy::Lru, EvictionPolicy::Lfu, EvictionPolicy::Fifo] {
        for max_size in [1usize, 2] {
            // TTL: none, zero (everything is expired as soon as it has any age), 20 ms, 50 ms, 1.5 s
            for ttl in [None, Some(0), Some(20), Some(50), Some(1500), Some(TTL_FOREVER)] {
                for shared in [false, true] {
                    if tier == Tier::Quick && shared && ttl == Some(50) {
                        continue;
                    }
                    if (ttl == Some(1500) || ttl == Some(0) || ttl == Some(TTL_FOREVER)) && (shared || (tier == Tier::Quick && max_size == 2)) {
                        continue;
                    }
                    v.push(CacheCfg { policy, max_size, ttl, shared, keys: 3 });
                }
            }
        }
    }
    v
}

fn main() {
    trv_core::startup();
    let cli = trv_core::parse_cli();
    if cli.property != "C10" {
        eprintln!("p-cache serves C10");
        std::process::exit(2);
    }
    if let Some(p) = cli.replay {
        let v = trv_core::load_replay(&p);
        if let Some(ch) = v["history"]["thread_schedule"].as_array() {
            let choices: Vec<usize> = ch.iter().filter_map(|x| x.as_u64().map(|u| u as usize)).collect();
            let label = v["config"].as_str().unwrap_or("");
            let hit = if label.contains("an expired entry, two lookups") { Some(threads::replay_expired(&choices, v["kind"].as_str().unwrap_or(""))) } else { threads::replay(label, &choices, v["kind"].as_str().unwrap_or("")) };
            match hit {
                Some(true) => {
                    println!("VIOLATION property=C10 replay={p}");
                    std::process::exit(1);
                }
                Some(false) => {
                    println!("replay: the recorded violation does not occur on the current tree");
                    std::process::exit(0);
                }
                None => {
                    eprintln!("MACHINERY no thread configuration with that label");
                    std::process::exit(2);
                }
            }
        }
        if v["config"].as_str().unwrap_or("").starts_with("cache concurrent") {
            let mut c = conc_configs(Tier::Quick);
            c.extend(conc_configs(Tier::Thorough));
            svcx::replay_main("C10", &p, c);
        }
        let mut c: Vec<C10> = grid(Tier::Thorough).into_iter().map(|cfg| C10 { cfg, probe: true }).collect();
        c.extend(grid(Tier::Quick).into_iter().map(|cfg| C10 { cfg, probe: false }));
        seq::replay_seq_main("C10", &p, c);
    }
    let tier = cli.tier;
    let mut rep = Report::new("C10", tier, "model_checking");
    rep.rule = "BFS over sequential histories {get key A/B/C through either of two services over one store, inner ok/err; wait 10 ms} on the real cache (LRU/LFU/FIFO, max_size 1-2, TTL none/20/50 ms, private and shared store) in lock-step with a set-valued reference cache; plus BFS over schedules of concurrent gated misses".into();
    rep.assumptions = vec![
        "points left open are set-valued: LFU victim among equal frequencies, an entry looked up at exactly its TTL, and whether an already expired entry may be evicted instead of the policy's victim".into(),
    ];
    for w in ["hit", "insert_into_full_cache", "several_admissible_states", "lookup_of_expired_entry", "lookup_exactly_at_ttl", "entry_overwritten_by_late_second_store", "two_misses_on_one_key_in_flight", "entry_overwritten_by_second_miss"] {
        rep.require_witness(w);
    }
    let depth = tier.pick(8, 10);
    let scns: Vec<C10> = grid(tier).into_iter().map(|cfg| C10 { cfg, probe: tier == Tier::Thorough }).collect();
    rep.bounds = json!({"depth": depth, "configurations": scns.len(), "keys": 3});
    seq::par_configs(&scns, &mut rep, |s, r| {
        seq::explore_seq(s, depth, true, r);
    });
    if tier == Tier::Thorough {
        let mut scratch = Report::new("C10", tier, "model_checking");
        let mut mismatches = 0;
        // (not for LFU with room for two entries: its victim among equal counts follows HashMap
        // iteration order, so the set-valued reference - and with it the keys reached - differs
        // between two executions of one history; every execution there stands alone)
        let few: Vec<&C10> = scns.iter().step_by(5).filter(|s| !(matches!(s.cfg.policy, EvictionPolicy::Lfu) && s.cfg.max_size >= 2)).collect();
        for s in few.iter() {
            let nd = seq::explore_seq(*s, 4, false, &mut scratch);
            let dd = seq::explore_seq(*s, 4, true, &mut scratch);
            if nd.keys != dd.keys {
                mismatches += 1;
                rep.machinery.push(format!("{}: dedup and no-dedup runs reach different key sets", s.label()));
            }
        }
        rep.extra.insert("abstraction_validation".into(), json!({"configs": few.len(), "depth": 4, "mismatches": mismatches}));
    }
    for cfg in conc_configs(tier) {
        let opts = Opts { max_depth: tier.pick(10, 13), time_cap: Duration::from_secs(tier.pick(30, 600)), ..Opts::default() };
        svcx::explore(&cfg, &opts, &mut rep);
    }
    // thread level: all interleavings of the store's critical sections
    threads::run(tier, &mut rep);
    threads::run_expired(tier, &mut rep);
    rep.require_witness("thread_schedules_with_preemption");
    rep.require_witness("thread_lookup_hit");
    rep.assumptions.push("thread level (engine B): scheduling points are the lock acquisitions of the cache store (repo feature verif-hooks); sequentially consistent memory; the inner service answers at once".into());
    trv_core::finish(rep);
}
