//! C08 — retry budget conservation and linearizability under all interleavings of the
//! atomic steps of concurrent try_withdraw / deposit calls (engine B).

use serde_json::json;
use std::collections::BTreeSet;
use std::sync::Arc;
use tower_resilience_retry::{AimdBudget, RetryBudget, TokenBucketBudget};
use trv_core::evidence::{Report, Tier, Violation};
use trv_core::ilv::{self, OpFn, Spec};

pub enum Budget {
    Token(TokenBucketBudget),
    /// a token bucket made by the public builder (an `Arc<dyn RetryBudget>`)
    Built(Arc<dyn RetryBudget>),
    Aimd(AimdBudget),
}

impl Budget {
    fn b(&self) -> &dyn RetryBudget {
        match self {
            Budget::Token(t) => t,
            Budget::Built(b) => b.as_ref(),
            Budget::Aimd(a) => a,
        }
    }
    fn observe(&self) -> String {
        match self {
            Budget::Token(t) => format!("balance={}", t.balance()),
            Budget::Built(b) => format!("balance={}", b.balance()),
            Budget::Aimd(a) => format!("balance={} current_max={}", a.balance(), a.current_max()),
        }
    }
}

#[derive(Clone, Debug)]
pub struct Cfg {
    pub aimd: bool,
    pub initial: usize,
    pub max: usize,
    pub deposit: usize,
    pub withdraw: usize,
    pub min: usize,
    /// thread programs, e.g. ["W", "D"] or ["WD", "DW"]
    pub programs: Vec<&'static str>,
    /// AIMD: 0 = AimdBudget::new, otherwise the public builder (conservation and the bound are
    /// judged; the ceiling is not visible through the trait). Token bucket: 0 = TokenBucketBudget::new, 1 = the public builder with max_tokens then
    /// initial_tokens, 2 = the builder with initial_tokens then max_tokens
    pub built: u8,
}

impl Cfg {
    pub fn label(&self) -> String {
        if self.aimd {
            format!("aimd min={} max={} start={} deposit={} withdraw={} programs={:?}{}", self.min, self.max, self.initial, self.deposit, self.withdraw, self.programs, if self.built != 0 { " built" } else { "" })
        } else {
            format!("token_bucket initial={} max={} programs={:?}{}", self.initial, self.max, self.programs, match self.built { 1 => " built(max,initial)", 2 => " built(initial,max)", _ => "" })
        }
    }
    fn make(&self) -> Budget {
        if self.aimd && self.built != 0 {
            // made by the public builder: only the trait is visible (no current_max)
            let b = tower_resilience_retry::RetryBudgetBuilder::new().aimd().min_budget(self.min).max_budget(self.max).deposit_amount(self.deposit).withdraw_amount(self.withdraw).build();
            let mut guard = 0;
            while b.balance() > self.initial && guard < 100 {
                b.try_withdraw();
                guard += 1;
            }
            Budget::Built(b)
        } else if self.aimd {
            let b = AimdBudget::new(self.min, self.max, self.deposit, self.withdraw, 0.5);
            // AimdBudget starts full; bring it down to `initial` tokens sequentially
            let mut guard = 0;
            while b.balance() > self.initial && guard < 100 {
                b.try_withdraw();
                guard += 1;
            }
            Budget::Aimd(b)
        } else {
            match self.built {
                1 => Budget::Built(tower_resilience_retry::RetryBudgetBuilder::new().token_bucket().max_tokens(self.max).initial_tokens(self.initial).build()),
                2 => Budget::Built(tower_resilience_retry::RetryBudgetBuilder::new().token_bucket().initial_tokens(self.initial).max_tokens(self.max).build()),
                _ => Budget::Token(TokenBucketBudget::new(10.0, self.max, self.initial)),
            }
        }
    }
    fn spec(&self, spurious: bool) -> Spec<Budget, i64> {
        let w: OpFn<Budget, i64> = Arc::new(|b: &Budget| b.b().try_withdraw() as i64);
        let d: OpFn<Budget, i64> = Arc::new(|b: &Budget| {
            b.b().deposit();
            -1
        });
        let threads = self
            .programs
            .iter()
            .map(|p| {
                p.chars()
                    .map(|c| match c {
                        'W' => ("W".to_string(), w.clone()),
                        'D' => ("D".to_string(), d.clone()),
                        _ => unreachable!(),
                    })
                    .collect()
            })
            .collect();
        let me = self.clone();
        let max = self.max;
        Spec {
            name: self.label(),
            make: Arc::new(move || me.make()),
            threads,
            install_hook: Arc::new(|| tower_resilience_core::verif::set_yield_hook(Some(Box::new(|op| ilv::yield_point(op))))),
            uninstall_hook: Arc::new(|| tower_resilience_core::verif::set_yield_hook(None)),
            step_check: Arc::new(move |b: &Budget| {
                let bal = b.b().balance();
                if bal > max {
                    Some(format!("balance {bal} exceeds the configured maximum {max}"))
                } else {
                    None
                }
            }),
            spurious,
        }
    }
}

/// Component-wise atomic reference for AimdBudget: the token balance and the adaptive
/// ceiling are two separately atomic components ("tracking the current token balance
/// separately", as the type's documentation says).  Every operation is split into its
/// atomic component steps and all interleavings of those steps are enumerated.  An outcome
/// inside this set but outside the fully sequential set is the recorded finding
/// "ceiling and tokens are not updated atomically"; an outcome outside this set means a
/// component itself lost an update.
fn aimd_componentwise_outcomes(cfg: &Cfg) -> BTreeSet<String> {
    #[derive(Clone)]
    struct St {
        tokens: u64,
        ceiling: u64,
        // per thread: (op index, sub-step, scratch)
        pc: Vec<(usize, u8, u64)>,
        rets: Vec<Vec<i64>>,
    }
    let progs: Vec<Vec<char>> = cfg.programs.iter().map(|p| p.chars().collect()).collect();
    // replicate make(): start full, withdraw down to `initial`
    let mut tokens = cfg.max as u64;
    let mut ceiling = cfg.max as u64;
    let mut guard = 0;
    while tokens > cfg.initial as u64 && guard < 100 {
        if tokens >= cfg.withdraw as u64 {
            tokens -= cfg.withdraw as u64;
        } else {
            ceiling = (((ceiling as f64) * 0.5) as u64).max(cfg.min as u64);
        }
        guard += 1;
    }
    let init = St { tokens, ceiling, pc: vec![(0, 0, 0); progs.len()], rets: vec![vec![]; progs.len()] };
    let mut out = BTreeSet::new();
    let mut stack = vec![init];
    while let Some(s) = stack.pop() {
        let mut any = false;
        for t in 0..progs.len() {
            let (i, sub, scratch) = s.pc[t];
            if i >= progs[t].len() {
                continue;
            }
            any = true;
            let mut n = s.clone();
            match (progs[t][i], sub) {
                ('W', 0) => {
                    if n.tokens >= cfg.withdraw as u64 {
                        n.tokens -= cfg.withdraw as u64;
                        n.rets[t].push(1);
                        n.pc[t] = (i + 1, 0, 0);
                    } else {
                        n.pc[t] = (i, 1, 0);
                    }
                }
                ('W', _) => {
                    n.ceiling = (((n.ceiling as f64) * 0.5) as u64).max(cfg.min as u64);
                    n.rets[t].push(0);
                    n.pc[t] = (i + 1, 0, 0);
                }
                ('D', 0) => n.pc[t] = (i, 1, n.ceiling),
                ('D', 1) => {
                    n.tokens = (n.tokens + cfg.deposit as u64).min(scratch);
                    n.pc[t] = (i, 2, 0);
                }
                ('D', _) => {
                    n.ceiling = (n.ceiling + 1).min(cfg.max as u64);
                    n.rets[t].push(-1);
                    n.pc[t] = (i + 1, 0, 0);
                }
                _ => unreachable!(),
            }
            stack.push(n);
        }
        if !any {
            out.insert(format!("{:?}|balance={} current_max={}", s.rets, s.tokens, s.ceiling));
        }
    }
    out
}

pub fn configs(tier: Tier) -> Vec<Cfg> {
    let programs: Vec<Vec<&'static str>> = vec![vec!["W", "D"], vec!["WW", "D"], vec!["W", "DD"], vec!["W", "W", "D"], vec!["WD", "DW"], vec!["D", "D"], vec!["W", "W"]];
    let mut v = vec![];
    let tok: Vec<(usize, usize)> = tier.pick(vec![(1, 2), (2, 3), (1, 1)], vec![(1, 2), (2, 3), (1, 3), (2, 2), (0, 2), (1, 1), (3, 4)]);
    for (initial, max) in tok {
        for p in &programs {
            v.push(Cfg { aimd: false, initial, max, deposit: 1, withdraw: 1, min: 0, programs: p.clone(), built: 0 });
        }
    }
    // the same token buckets made by the public builder, setters in both orders
    for (initial, max) in [(1usize, 2usize), (0, 2)] {
        for built in [1u8, 2] {
            for p in programs.iter().take(2) {
                v.push(Cfg { aimd: false, initial, max, deposit: 1, withdraw: 1, min: 0, programs: p.clone(), built });
            }
        }
    }
    // (min, max, start, deposit, withdraw); several start one deposit below the ceiling, so
    // that two racing deposits can overshoot it
    let aimd: Vec<(usize, usize, usize, usize, usize)> = tier.pick(
        // (the last ones: a floor of the ceiling - min_budget - above the deposit amount, and
        // a balance drained to below it)
        vec![(1, 3, 1, 1, 1), (1, 2, 1, 1, 2), (1, 2, 1, 1, 1), (1, 3, 2, 2, 1), (3, 4, 0, 1, 1)],
        vec![(1, 3, 1, 1, 1), (1, 2, 1, 1, 2), (1, 2, 1, 1, 1), (1, 3, 2, 2, 1), (1, 3, 1, 2, 1), (1, 3, 2, 1, 2), (1, 3, 0, 1, 1), (1, 3, 2, 2, 2), (1, 4, 3, 1, 1), (3, 4, 0, 1, 1), (2, 4, 1, 1, 1), (3, 3, 0, 1, 2)],
    );
    for (min, max, initial, deposit, withdraw) in aimd {
        for p in &programs {
            v.push(Cfg { aimd: true, initial, max, deposit, withdraw, min, programs: p.clone(), built: 0 });
        }
    }
    // the smallest budgets: a maximum of 0 ("never retry") must stay at 0 whatever happens, a
    // maximum of 1 with a floor of 0 must never exceed 1
    for (min, max, initial, deposit, withdraw) in [(0usize, 0usize, 0usize, 1usize, 1usize), (0, 1, 0, 1, 1)] {
        for p in [vec!["W", "D"], vec!["WD", "DW"], vec!["WDW", "D"]] {
            v.push(Cfg { aimd: true, initial, max, deposit, withdraw, min, programs: p.clone(), built: 0 });
            v.push(Cfg { aimd: true, initial, max, deposit, withdraw, min, programs: p, built: 1 });
        }
    }
    for p in [vec!["W", "D"], vec!["WD", "DW"]] {
        v.push(Cfg { aimd: false, initial: 0, max: 0, deposit: 1, withdraw: 1, min: 0, programs: p, built: 0 });
    }
    // AIMD budgets made by the public builder, with unequal amounts (start full)
    for (min, max, initial, deposit, withdraw) in [(1usize, 4usize, 4usize, 1usize, 3usize), (1, 3, 3, 2, 1)] {
        for p in programs.iter().take(3) {
            v.push(Cfg { aimd: true, initial, max, deposit, withdraw, min, programs: p.clone(), built: 1 });
        }
    }
    // debugging aid: VERIF_ONLY=<substring of a configuration label>
    if let Ok(only) = std::env::var("VERIF_ONLY") {
        v.retain(|c| c.label().contains(&only));
    }
    v
}

pub fn check_cfg(cfg: &Cfg, tier: Tier, rep: &mut Report) {
    let site = if cfg.aimd { "AimdBudget" } else { "TokenBucketBudget" };
    // thorough: the unbounded search only where it is small (two threads, at most three
    // operations); larger programs go up to three preemptions (CAS retry loops make their
    // unbounded schedule space run into millions)
    let ops: usize = cfg.programs.iter().map(|p| p.len()).sum();
    let small = cfg.programs.len() == 2 && ops <= if cfg.aimd { 2 } else { 3 };
    let bounds: Vec<Option<usize>> = tier.pick(vec![Some(0), Some(1), Some(2)], if small { vec![Some(0), Some(1), Some(2), None] } else if cfg.aimd && cfg.programs.len() >= 3 { vec![Some(0), Some(1), Some(2)] } else { vec![Some(0), Some(1), Some(2), Some(3)] });
    let spurious = tier == Tier::Thorough;
    let spec = cfg.spec(spurious);
    let seq = ilv::sequential_outcomes(&spec, |b| b.observe());
    let built_aimd = cfg.aimd && cfg.built != 0;
    let componentwise = if cfg.aimd && !built_aimd { aimd_componentwise_outcomes(cfg) } else { BTreeSet::new() };
    if cfg.aimd && !built_aimd && !seq.iter().all(|o| componentwise.contains(o)) {
        rep.machinery.push(format!("{}: the component-wise AIMD reference does not contain the sequential outcomes {:?} vs {:?}", cfg.label(), seq, componentwise));
    }
    // what the budget was funded with: the configured initial tokens (the AIMD budget starts
    // full and is drained to its start by make())
    let start_balance = if cfg.aimd { cfg.make().b().balance() } else { cfg.initial.min(cfg.max) };
    let mut seen_outcomes: BTreeSet<String> = BTreeSet::new();
    let mut total = 0u64;
    let mut bound_done: Option<String> = None;
    let mut cas_fail_other = 0u64;
    let mut found: Vec<(String, String, Vec<usize>)> = vec![];
    // wall-clock cap per configuration (the unbounded search of three-thread programs with
    // CAS retry loops can run to millions of schedules); a capped bound is reported as such
    ilv::set_deadline(Some(std::time::Instant::now() + std::time::Duration::from_secs(tier.pick(20, 180))));
    for b in bounds {
        let mut local_found: Vec<(String, String, Vec<usize>)> = vec![];
        let stats = ilv::explore(&spec, b, tier.pick(200_000, 3_000_000), |x, shared, choices| {
            let grants: i64 = x.returns.iter().flatten().filter(|r| **r == 1).count() as i64;
            let deposits: i64 = x.returns.iter().flatten().filter(|r| **r == -1).count() as i64;
            let bal = shared.b().balance() as i64;
            let outcome = format!("{:?}|{}", x.returns, shared.observe());
            seen_outcomes.insert(outcome.clone());
            // a compare-exchange that failed because another thread moved (witness)
            let preempted = x.points.iter().filter(|p| p.running.map_or(false, |r| p.choices[p.chosen].0 != r)).count();
            if preempted > 0 {
                cas_fail_other += 1;
            }
            if let Some(v) = &x.step_violation {
                local_found.push(("balance_above_max".into(), v.clone(), choices.to_vec()));
            }
            let lhs = grants * cfg.withdraw as i64 + bal;
            let rhs = start_balance as i64 + deposits * cfg.deposit as i64;
            if lhs > rhs {
                local_found.push((
                    "conservation".into(),
                    format!("grants {grants} x cost {} + balance {bal} = {lhs} > start {start_balance} + deposits {deposits} x {} = {rhs}", cfg.withdraw, cfg.deposit),
                    choices.to_vec(),
                ));
            }
            if !built_aimd && !seq.contains(&outcome) {
                let kind = if componentwise.contains(&outcome) { "ceiling_not_linearizable" } else { "not_linearizable" };
                if kind == "not_linearizable" || !local_found.iter().any(|f| f.0 == kind) {
                    local_found.push((kind.into(), format!("concurrent outcome {outcome} equals no sequential execution {:?}", seq), choices.to_vec()));
                }
            }
            if x.panicked {
                local_found.push(("panic".into(), "an operation panicked".into(), choices.to_vec()));
            }
            // the recorded ceiling finding must not hide other violations: keep exploring past it
            !local_found.iter().any(|f| f.0 != "ceiling_not_linearizable")
        });
        total += stats.schedules;
        if stats.capped {
            // the bounds completed before stay valid and are reported per configuration
            rep.caps.push(format!("{}: schedule/time cap hit at preemption bound {} (bounds below it were completed)", cfg.label(), b.map_or("unbounded".to_string(), |n| n.to_string())));
            break;
        }
        bound_done = Some(match b {
            Some(n) => n.to_string(),
            None => "unbounded".into(),
        });
        let stop = local_found.iter().any(|f| f.0 != "ceiling_not_linearizable");
        for f in local_found {
            if !found.iter().any(|g: &(String, String, Vec<usize>)| g.0 == f.0) {
                found.push(f);
            }
        }
        if stop {
            break; // the first counterexample has the fewest preemptions
        }
    }
    rep.states += seen_outcomes.len() as u64;
    rep.transitions += total;
    rep.executions += total;
    rep.evaluations += total;
    for o in &seen_outcomes {
        rep.outcomes.insert(format!("{site}:{o}"));
        rep.distinct.insert(format!("{}:{o}", cfg.label()));
    }
    rep.witness("schedules_with_preemption", cas_fail_other);
    if seen_outcomes.len() >= 2 {
        rep.witness("config_with_several_outcomes", 1);
    }
    rep.configs.push(json!({"config": cfg.label(), "schedules": total, "preemption_bound_completed": bound_done, "distinct_outcomes": seen_outcomes.len(), "sequential_outcomes": seq.len()}));
    let mut kinds = BTreeSet::new();
    for (kind, detail, choices) in found {
        if !kinds.insert(kind.clone()) {
            continue;
        }
        // replay twice: identical traces required
        let (a, _) = ilv::run(&spec, &choices, true);
        let (b, _) = ilv::run(&spec, &choices, true);
        rep.replay_checks += 1;
        if a.trace != b.trace || a.returns != b.returns {
            rep.replay_divergences += 1;
            rep.machinery.push(format!("{}: schedule {:?} does not replay deterministically", cfg.label(), choices));
            continue;
        }
        rep.violations.push(Violation {
            property: "C08".into(),
            kind,
            site: site.into(),
            config: cfg.label(),
            history: json!(choices),
            detail,
            log: a.trace,
        });
    }
    rep.sample(json!({"config": cfg.label(), "sequential_outcomes": seq.iter().take(3).collect::<Vec<_>>(), "concurrent_outcomes": seen_outcomes.iter().take(3).collect::<Vec<_>>()}));
}

pub fn replay(path: &str) -> ! {
    let v = trv_core::load_replay(path);
    let label = v["config"].as_str().unwrap_or("");
    let choices: Vec<usize> = v["history"].as_array().map(|a| a.iter().filter_map(|x| x.as_u64().map(|u| u as usize)).collect()).unwrap_or_default();
    let kind = v["kind"].as_str().unwrap_or("").to_string();
    let mut all = configs(Tier::Quick);
    all.extend(configs(Tier::Thorough));
    for cfg in all {
        if cfg.label() == label {
            let spec = cfg.spec(true);
            let seq = ilv::sequential_outcomes(&spec, |b| b.observe());
            let start_balance = if cfg.aimd { cfg.make().b().balance() as i64 } else { cfg.initial.min(cfg.max) as i64 };
            let (a, sa) = ilv::run(&spec, &choices, true);
            let (b, _sb) = ilv::run(&spec, &choices, true);
            if a.trace != b.trace || a.returns != b.returns {
                eprintln!("MACHINERY replay divergence");
                std::process::exit(2);
            }
            for l in &a.trace {
                println!("{l}");
            }
            let grants = a.returns.iter().flatten().filter(|r| **r == 1).count() as i64;
            let deposits = a.returns.iter().flatten().filter(|r| **r == -1).count() as i64;
            let bal = sa.b().balance() as i64;
            let outcome = format!("{:?}|{}", a.returns, sa.observe());
            println!("outcome: {outcome}");
            let hit = match kind.as_str() {
                "conservation" => grants * cfg.withdraw as i64 + bal > start_balance + deposits * cfg.deposit as i64,
                "not_linearizable" | "ceiling_not_linearizable" => !seq.contains(&outcome),
                "balance_above_max" => a.step_violation.is_some(),
                _ => a.panicked,
            };
            if hit {
                println!("VIOLATION property=C08 replay={path}");
                std::process::exit(1);
            }
            println!("replay: the recorded violation does not occur on the current tree");
            std::process::exit(0);
        }
    }
    eprintln!("MACHINERY no configuration labelled '{label}'");
    std::process::exit(2);
}
