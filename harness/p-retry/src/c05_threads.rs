//! C05, thread level (engine B): whole requests through clones of one Retry service that
//! share one budget run on OS threads; scheduling points are the budget's atomic steps (repo
//! feature verif-hooks). The inner service fails every call, the backoff is zero, so every
//! request retries until its attempt limit or until the budget refuses. "No grant, no retry":
//! whatever the interleaving, the retries made in total never exceed what the budget was
//! funded with, no request exceeds its attempt limit, and (token bucket) the attempts per
//! request are those of some one-at-a-time order of the same requests.

use std::sync::atomic::{AtomicUsize, Ordering};
use std::sync::Arc;
use std::task::{Context, Poll};
use std::time::Duration;
use tower::{Layer, Service};
use tower_resilience_retry::{RetryBudget, RetryBudgetBuilder, RetryLayer};
use trv_core::evidence::{Report, Tier};
use trv_core::ilv::{self, LinCheck, OpFn, Spec};
use trv_core::inner::{InnerErr, Req, Resp};

#[derive(Clone)]
struct Failing {
    /// request ids, one entry per call
    calls: Arc<std::sync::Mutex<Vec<u32>>>,
}

impl Service<Req> for Failing {
    type Response = Resp;
    type Error = InnerErr;
    type Future = std::future::Ready<Result<Resp, InnerErr>>;
    fn poll_ready(&mut self, _cx: &mut Context<'_>) -> Poll<Result<(), InnerErr>> {
        Poll::Ready(Ok(()))
    }
    fn call(&mut self, req: Req) -> Self::Future {
        let mut g = self.calls.lock().unwrap();
        g.push(req.id);
        let n = g.len();
        std::future::ready(Err(InnerErr { id: n as u32, kind: 0 }))
    }
}

type Svc = tower_resilience_retry::Retry<Failing, Req, InnerErr>;

pub struct Shared {
    svc: Svc,
    calls: Arc<std::sync::Mutex<Vec<u32>>>,
    next_id: AtomicUsize,
    budget: Arc<dyn RetryBudget>,
    start_balance: usize,
}

#[derive(Clone)]
pub struct TCfg {
    pub aimd: bool,
    pub initial: usize,
    pub max_attempts: usize,
    /// requests per thread
    pub programs: Vec<usize>,
}

impl TCfg {
    pub fn label(&self) -> String {
        format!(
            "retry threads budget={} max_attempts={} backoff=0 inner=always-fails requests_per_thread={:?}",
            if self.aimd { "aimd(min 1, max 2, starts full)".to_string() } else { format!("token_bucket(initial {}, max 2)", self.initial) },
            self.max_attempts,
            self.programs
        )
    }
    fn spec(&self) -> Spec<Shared, i64> {
        let me = self.clone();
        // one request to the end; returns the number of times the inner service was called for it
        let op: OpFn<Shared, i64> = Arc::new(|s: &Shared| {
            let mut svc = s.svc.clone();
            let id = s.next_id.fetch_add(1, Ordering::SeqCst) as u32;
            let rt = tokio::runtime::Builder::new_current_thread().enable_time().start_paused(true).build().unwrap();
            rt.block_on(async {
                let _ = futures::future::poll_fn(|cx| svc.poll_ready(cx)).await;
                let _ = svc.call(Req::new(id, 0)).await;
            });
            s.calls.lock().unwrap().iter().filter(|r| **r == id).count() as i64
        });
        Spec {
            name: self.label(),
            make: Arc::new(move || {
                let budget: Arc<dyn RetryBudget> = if me.aimd {
                    RetryBudgetBuilder::new().aimd().min_budget(1).max_budget(2).build()
                } else {
                    RetryBudgetBuilder::new().token_bucket().max_tokens(2).initial_tokens(me.initial).build()
                };
                let start_balance = budget.balance();
                let layer = RetryLayer::<Req, InnerErr>::builder().max_attempts(me.max_attempts).fixed_backoff(Duration::ZERO).budget(budget.clone()).build();
                let calls = Arc::new(std::sync::Mutex::new(vec![]));
                Shared { svc: layer.layer(Failing { calls: calls.clone() }), calls, next_id: AtomicUsize::new(1), budget, start_balance }
            }),
            threads: self.programs.iter().map(|n| (0..*n).map(|_| ("request".to_string(), op.clone())).collect()).collect(),
            install_hook: Arc::new(|| tower_resilience_core::verif::set_yield_hook(Some(Box::new(|op| ilv::yield_point(op))))),
            uninstall_hook: Arc::new(|| tower_resilience_core::verif::set_yield_hook(None)),
            step_check: Arc::new(|_s: &Shared| None),
            spurious: false,
        }
    }
}

pub fn configs(tier: Tier) -> Vec<TCfg> {
    let mut v = vec![];
    for initial in [0usize, 1] {
        v.push(TCfg { aimd: false, initial, max_attempts: 2, programs: vec![1, 1] });
        v.push(TCfg { aimd: false, initial, max_attempts: 3, programs: vec![1, 1] });
        if tier == Tier::Thorough {
            v.push(TCfg { aimd: false, initial, max_attempts: 2, programs: vec![2, 1] });
            v.push(TCfg { aimd: false, initial, max_attempts: 2, programs: vec![1, 1, 1] });
        }
    }
    v.push(TCfg { aimd: true, initial: 2, max_attempts: 3, programs: vec![1, 1] });
    v
}

fn observe(s: &Shared) -> String {
    format!("balance={}", s.budget.balance())
}

fn make_extra(cfg: TCfg) -> impl Fn(&ilv::Execution<i64>, &Shared) -> Vec<(String, String)> + Sync {
    move |x, s| {
        let mut out = vec![];
        let all: Vec<i64> = x.returns.iter().flatten().cloned().collect();
        if let Some(a) = all.iter().find(|a| **a as usize > cfg.max_attempts.max(1) || **a < 1) {
            out.push(("too_many_attempts".to_string(), format!("a request made {a} attempts with max_attempts {}: {:?}", cfg.max_attempts, x.returns)));
        }
        // every call fails, nothing is ever deposited: the retries are funded by the start balance alone
        let retries: i64 = all.iter().map(|a| a - 1).sum();
        if retries as usize > s.start_balance {
            out.push(("retry_without_grant".to_string(), format!("{retries} retries were made in total from a budget that started with {} tokens and received no deposit (attempts per request {:?})", s.start_balance, x.returns)));
        }
        if s.budget.balance() > s.start_balance {
            out.push(("budget_grew_without_deposit".to_string(), format!("balance {} after the run, {} before, no call succeeded", s.budget.balance(), s.start_balance)));
        }
        if retries > 0 {
            out.push(("witness:retry_granted_on_a_thread".to_string(), String::new()));
        }
        if all.iter().any(|a| (*a as usize) < cfg.max_attempts) {
            out.push(("witness:retry_refused_on_a_thread".to_string(), String::new()));
        }
        out
    }
}

pub fn run(tier: Tier, rep: &mut Report) {
    for cfg in configs(tier) {
        let spec = cfg.spec();
        let extra = make_extra(cfg.clone());
        let c = LinCheck {
            property: "C05",
            site: "Retry_threads",
            label: cfg.label(),
            spec: &spec,
            bounds: tier.pick(vec![Some(0), Some(1), Some(2)], vec![Some(0), Some(1), Some(2), Some(3)]),
            max_schedules: tier.pick(100_000, 1_000_000),
            observe: &observe,
            extra: &extra,
            // (the AIMD budget's two-component state is a known finding of C08; its service-level
            // runs are judged by conservation only)
            linearizable: !cfg.aimd,
        };
        ilv::set_deadline(Some(std::time::Instant::now() + std::time::Duration::from_secs(tier.pick(20, 120))));
        ilv::check_linearizable(&c, rep);
    }
    ilv::set_deadline(None);
}

pub fn replay(label: &str, choices: &[usize], kind: &str) -> Option<bool> {
    let mut all = configs(Tier::Quick);
    all.extend(configs(Tier::Thorough));
    for cfg in all {
        if cfg.label() == label {
            let spec = cfg.spec();
            let extra = make_extra(cfg.clone());
            let c = LinCheck { property: "C05", site: "Retry_threads", label: cfg.label(), spec: &spec, bounds: vec![None], max_schedules: 1_000_000, observe: &observe, extra: &extra, linearizable: !cfg.aimd };
            return Some(ilv::replay_schedule(&c, choices, kind));
        }
    }
    None
}
