//! C14 — backoff delays are total, monotone and capped (engine C: full finite grid).

use serde_json::json;
use std::collections::HashSet;
use std::panic::{catch_unwind, AssertUnwindSafe};
use std::time::Duration;
use tower::{Layer, Service};
use tower_resilience_reconnect::{ReconnectLayer, ReconnectPolicy};
use tower_resilience_retry::{ExponentialBackoff, ExponentialRandomBackoff, IntervalFunction, RetryLayer};
use trv_core::evidence::{Report, Tier, Violation};
use trv_core::inner::{GatedInner, InnerErr, Mode, Out, Plan, Req};
use trv_core::world::World;

fn attempts(tier: Tier) -> Vec<usize> {
    let dense = tier.pick(2_000usize, 10_000);
    let mut v: Vec<usize> = (0..=dense).collect();
    for k in 0..=63u32 {
        let p = 1usize << k;
        v.push(p.saturating_sub(1));
        v.push(p);
        v.push(p.saturating_add(1));
    }
    for x in [i32::MAX as usize - 1, i32::MAX as usize, i32::MAX as usize + 1, u32::MAX as usize - 1, u32::MAX as usize, u32::MAX as usize + 1, usize::MAX - 1, usize::MAX] {
        v.push(x);
    }
    v.sort();
    v.dedup();
    v
}

const YEAR: u64 = 365 * 24 * 3600;

fn initials() -> Vec<Duration> {
    vec![
        Duration::ZERO,
        Duration::from_nanos(1),
        Duration::from_millis(1),
        Duration::from_millis(100),
        Duration::from_secs(1),
        Duration::from_secs(3600),
        Duration::from_secs(24 * 3600),
    ]
}

fn maxes(initial: Duration) -> Vec<Option<Duration>> {
    vec![
        None,
        Some(initial / 2),
        Some(initial),
        Some(Duration::from_secs(5)),
        Some(Duration::from_secs(3600)),
        Some(Duration::from_secs(YEAR)),
        Some(Duration::from_secs(100 * YEAR)),
    ]
}

const MULTIPLIERS: [f64; 7] = [1.0, 1.01, 1.1, 1.5, 2.0, 3.0, 10.0];
const FACTORS: [f64; 4] = [0.0, 0.1, 0.5, 1.0];

/// Reference: initial x multiplier^attempt in f64 seconds (may be +inf).
fn expected_secs(initial: Duration, m: f64, attempt: usize) -> f64 {
    if initial.is_zero() {
        return 0.0;
    }
    // powf on the exact attempt number: no wrap-around
    initial.as_secs_f64() * m.powf(attempt as f64)
}

fn close(a: f64, b: f64) -> bool {
    (a - b).abs() <= 1e-9 * a.abs().max(b.abs()) + 2e-9
}

struct Ctx<'a> {
    rep: &'a mut Report,
    seen: HashSet<u64>,
    reported: HashSet<String>,
}

impl<'a> Ctx<'a> {
    fn viol(&mut self, kind: &str, site: &str, config: String, point: serde_json::Value, detail: String) {
        if !self.reported.insert(format!("{kind}/{site}")) {
            return;
        }
        self.rep.violations.push(Violation { property: "C14".into(), kind: kind.into(), site: site.into(), config, history: point, detail, log: vec![] });
    }
}

/// Progress of the grid, for the watchdog: a delay function that does not return (a loop
/// whose length grows with the attempt number) would otherwise hang the check - and the
/// retrying caller - instead of being reported.
static TICKS: std::sync::atomic::AtomicU64 = std::sync::atomic::AtomicU64::new(0);
static AT_ATTEMPT: std::sync::atomic::AtomicUsize = std::sync::atomic::AtomicUsize::new(0);
static AT_SERIES: std::sync::Mutex<Option<(String, String)>> = std::sync::Mutex::new(None);
static DONE: std::sync::atomic::AtomicBool = std::sync::atomic::AtomicBool::new(false);
pub static REPLAYING: std::sync::Mutex<Option<String>> = std::sync::Mutex::new(None);
/// a single evaluation may take this long (they take well under a microsecond)
const STALL_SECS: u64 = 15;

fn at_series(site: &str, label: &str) {
    *AT_SERIES.lock().unwrap() = Some((site.to_string(), label.to_string()));
}

fn at(a: usize) {
    AT_ATTEMPT.store(a, std::sync::atomic::Ordering::Relaxed);
    TICKS.fetch_add(1, std::sync::atomic::Ordering::Relaxed);
}

fn start_watchdog(tier: Tier) {
    use std::sync::atomic::Ordering::Relaxed;
    std::thread::spawn(move || {
        let mut last = TICKS.load(Relaxed);
        let mut since = std::time::Instant::now();
        loop {
            std::thread::sleep(std::time::Duration::from_millis(250));
            if DONE.load(Relaxed) {
                return;
            }
            let now = TICKS.load(Relaxed);
            if now != last {
                last = now;
                since = std::time::Instant::now();
                continue;
            }
            if since.elapsed().as_secs() >= STALL_SECS {
                let Some((site, label)) = AT_SERIES.lock().unwrap().clone() else { continue };
                let a = AT_ATTEMPT.load(Relaxed);
                if let Some(p) = REPLAYING.lock().unwrap().clone() {
                    println!("next_interval({a}) of {site} [{label}] has not returned after {STALL_SECS}s");
                    println!("VIOLATION property=C14 replay={p}");
                    std::process::exit(1);
                }
                let mut rep = Report::new("C14", tier, "exploration");
                rep.rule = "watchdog: one evaluation of the delay function did not return".into();
                rep.evaluations = now;
                rep.violations.push(Violation {
                    property: "C14".into(),
                    kind: "does_not_return".into(),
                    site,
                    config: label,
                    history: json!({"attempt": a}),
                    detail: format!("next_interval({a}) has not returned after {STALL_SECS}s (every other point of the grid takes less than a microsecond): the delay is not a function of the attempt number that a caller can wait for"),
                    log: vec![],
                });
                trv_core::finish(rep);
            }
        }
    });
}

fn check_series(ctx: &mut Ctx, site: &str, label: String, initial: Duration, m: f64, max: Option<Duration>, atts: &[usize], f: &dyn Fn(usize) -> Duration) {
    let mut prev: Option<(usize, Duration)> = None;
    let cap = max.unwrap_or(Duration::MAX);
    at_series(site, &label);
    for &a in atts {
        ctx.rep.evaluations += 1;
        at(a);
        let r = catch_unwind(AssertUnwindSafe(|| f(a)));
        let d = match r {
            Ok(d) => d,
            Err(_) => {
                ctx.viol("panic", site, label.clone(), json!({"attempt": a}), format!("next_interval({a}) panicked"));
                return;
            }
        };
        ctx.seen.insert(trv_core::evidence::fxhash(format!("{label}/{}", d.as_nanos()).as_bytes()));
        if let Some((pa, pd)) = prev {
            if d < pd {
                ctx.viol("not_monotone", site, label.clone(), json!({"attempt": a, "previous_attempt": pa}), format!("delay({pa})={pd:?} > delay({a})={d:?}"));
                return;
            }
        }
        prev = Some((a, d));
        if d > cap {
            ctx.viol("above_cap", site, label.clone(), json!({"attempt": a}), format!("delay({a})={d:?} exceeds max_interval {cap:?}"));
            return;
        }
        let e = expected_secs(initial, m, a);
        if e.is_finite() && e < cap.as_secs_f64() * (1.0 - 1e-9) && e < 1.8e19 {
            if !close(d.as_secs_f64(), e) {
                ctx.viol("wrong_value", site, label.clone(), json!({"attempt": a}), format!("delay({a})={d:?} but initial x multiplier^attempt = {e}s is below the cap {cap:?}"));
                return;
            }
        } else if max.is_some() && (e >= cap.as_secs_f64() * (1.0 + 1e-9) || !e.is_finite()) {
            // at or beyond the cap: exactly the cap
            if d != cap {
                ctx.viol("wrong_value", site, label.clone(), json!({"attempt": a}), format!("delay({a})={d:?} but the un-capped value {e}s is beyond max_interval {cap:?}"));
                return;
            }
        }
    }
}

fn check_jitter(ctx: &mut Ctx, site: &str, label: String, initial: Duration, m: f64, max: Option<Duration>, factor: f64, atts: &[usize], f: &dyn Fn(usize) -> Duration) {
    at_series(site, &label);
    let cap = max.unwrap_or(Duration::MAX);
    for &a in atts {
        let e = expected_secs(initial, m, a);
        let base = if e.is_finite() && e < cap.as_secs_f64() { e } else { cap.as_secs_f64() };
        for _ in 0..16 {
            ctx.rep.evaluations += 1;
            at(a);
            let r = catch_unwind(AssertUnwindSafe(|| f(a)));
            let d = match r {
                Ok(d) => d,
                Err(_) => {
                    ctx.viol("panic", site, label.clone(), json!({"attempt": a}), format!("jittered next_interval({a}) panicked"));
                    return;
                }
            };
            ctx.seen.insert(trv_core::evidence::fxhash(format!("{label}/{}", d.as_nanos()).as_bytes()));
            let lo = base * (1.0 - factor);
            let hi = base * (1.0 + factor);
            let x = d.as_secs_f64();
            let tol = 1e-9 * base.abs() + 2e-9;
            let hi_ok = x <= hi + tol || hi >= 1.8e19;
            if x < lo - tol || !hi_ok {
                ctx.viol(
                    "jitter_out_of_range",
                    site,
                    label.clone(),
                    json!({"attempt": a}),
                    format!("jittered delay({a})={d:?} outside [{lo}, {hi}] (un-jittered {base}s, randomization factor {factor})"),
                );
                return;
            }
        }
    }
}

pub fn run(tier: Tier) -> Report {
    start_watchdog(tier);
    let mut rep = Report::new("C14", tier, "exploration");
    rep.rule = "full grid: attempts (dense prefix + powers of two +-1 + i32/u32/usize limits) x initial x multiplier x max_interval x randomization factor, for ExponentialBackoff, ExponentialRandomBackoff and every ReconnectPolicy constructor; each point evaluated under catch_unwind and compared with initial*multiplier^attempt / the cap; distinct = distinct (configuration, delay value) pairs".into();
    rep.assumptions = vec!["jitter draws come from the thread RNG: bounds are checked on every draw, the draws are not enumerated".into()];
    let atts = attempts(tier);
    let jitter_atts: Vec<usize> = atts.iter().copied().filter(|a| *a <= 200 || !(*a <= tier.pick(2000, 10000))).collect();
    let mut ctx = Ctx { rep: &mut rep, seen: HashSet::new(), reported: HashSet::new() };
    let mut configs = 0u64;
    for initial in initials() {
        for m in MULTIPLIERS {
            for max in maxes(initial) {
                configs += 1;
                let label = format!("initial={initial:?} multiplier={m} max_interval={max:?}");
                let mut b = ExponentialBackoff::new(initial).multiplier(m);
                if let Some(mx) = max {
                    b = b.max_interval(mx);
                }
                check_series(&mut ctx, "ExponentialBackoff", label.clone(), initial, m, max, &atts, &|a| b.next_interval(a));
                for f in FACTORS {
                    let mut rb = ExponentialRandomBackoff::new(initial, f).multiplier(m);
                    if let Some(mx) = max {
                        rb = rb.max_interval(mx);
                    }
                    check_jitter(&mut ctx, "ExponentialRandomBackoff", format!("{label} factor={f}"), initial, m, max, f, &jitter_atts, &|a| rb.next_interval(a));
                }
                // ReconnectPolicy constructors built on them (multiplier fixed at 2, max mandatory)
                if m == 2.0 {
                    if let Some(mx) = max {
                        let p = ReconnectPolicy::exponential(initial, mx);
                        check_series(&mut ctx, "ReconnectPolicy::exponential", label.clone(), initial, 2.0, max, &atts, &|a| p.delay_for_attempt(a).expect("delay"));
                        for f in FACTORS {
                            let p = ReconnectPolicy::exponential_random(initial, mx, f);
                            check_jitter(&mut ctx, "ReconnectPolicy::exponential_random", format!("{label} factor={f}"), initial, 2.0, max, f, &jitter_atts, &|a| p.delay_for_attempt(a).expect("delay"));
                        }
                    }
                }
            }
        }
        let p = ReconnectPolicy::fixed(initial);
        check_series(&mut ctx, "ReconnectPolicy::fixed", format!("fixed {initial:?}"), initial, 1.0, None, &atts, &|a| p.delay_for_attempt(a).expect("delay"));
    }
    // default policy: 100 ms doubling up to 5 s
    let p = ReconnectPolicy::default();
    check_series(&mut ctx, "ReconnectPolicy::default", "default".into(), Duration::from_millis(100), 2.0, Some(Duration::from_secs(5)), &atts, &|a| p.delay_for_attempt(a).expect("delay"));
    let none = ReconnectPolicy::none();
    for &a in &atts {
        ctx.rep.evaluations += 1;
        if none.delay_for_attempt(a).is_some() {
            ctx.viol("wrong_value", "ReconnectPolicy::none", "none".into(), json!({"attempt": a}), "none policy produced a delay".into());
            break;
        }
    }
    let custom = ReconnectPolicy::Custom(std::sync::Arc::new(ExponentialBackoff::new(Duration::from_millis(100)).max_interval(Duration::from_secs(5))));
    check_series(&mut ctx, "ReconnectPolicy::Custom", "custom(exp 100ms..5s)".into(), Duration::from_millis(100), 2.0, Some(Duration::from_secs(5)), &atts, &|a| custom.delay_for_attempt(a).expect("delay"));

    // (the grid is done: what follows are whole retry loops, which the watchdog does not time)
    DONE.store(true, std::sync::atomic::Ordering::Relaxed);
    // ---- end to end: loops against a dead backend for 2 h of virtual time
    let hours = tier.pick(2u64, 6);
    {
        let r = catch_unwind(AssertUnwindSafe(|| {
            let w = World::new(0, 10, Mode::Script, 1);
            w.inner.lock().unwrap().default_plan = Plan::now(Out::Err(0));
            let layer = ReconnectLayer::with_defaults();
            let mut svc = layer.layer(GatedInner::new(w.inner.clone()));
            let res = w.block_on(async {
                let _ = futures::future::poll_fn(|cx| Service::<Req>::poll_ready(&mut svc, cx)).await;
                tokio::time::timeout(Duration::from_secs(hours * 3600), svc.call(Req::new(1, 0))).await.is_err()
            });
            let g = w.inner.lock().unwrap();
            let starts: Vec<u64> = g.calls.iter().map(|c| c.start_ms).collect();
            (res, starts)
        }));
        ctx.rep.evaluations += 1;
        match r {
            Err(_) => ctx.viol("panic", "ReconnectLayer::with_defaults", "default reconnect layer, dead backend".into(), json!({"virtual_hours": hours}), "the default reconnect loop panicked against an always-failing backend".into()),
            Ok((still_running, starts)) => {
                if !still_running {
                    ctx.viol("loop_ended", "ReconnectLayer::with_defaults", "default".into(), json!({}), "unlimited reconnect loop ended".into());
                }
                let gaps: Vec<u64> = starts.windows(2).map(|w| w[1] - w[0]).collect();
                if gaps.iter().any(|g| *g > 5000) {
                    ctx.viol("above_cap", "ReconnectLayer::with_defaults", "default".into(), json!({"gaps_ms": gaps.iter().take(20).collect::<Vec<_>>()}), "a reconnect delay exceeded the 5 s cap".into());
                }
                ctx.rep.extra.insert("reconnect_dead_backend".into(), json!({"virtual_hours": hours, "attempts": starts.len(), "max_gap_ms": gaps.iter().max()}));
                ctx.rep.witness("reconnect_loop_survived_attempt_68", (starts.len() > 70) as u64);
            }
        }
    }
    for capped in [true, false] {
        let r = catch_unwind(AssertUnwindSafe(|| {
            let w = World::new(0, 10, Mode::Script, 1);
            w.inner.lock().unwrap().default_plan = Plan::now(Out::Err(0));
            let b = RetryLayer::<Req, InnerErr>::builder().max_attempts(100_000);
            let layer = if capped {
                b.backoff(ExponentialBackoff::new(Duration::from_millis(100)).max_interval(Duration::from_secs(5))).build()
            } else {
                b.exponential_backoff(Duration::from_millis(100)).build()
            };
            let mut svc = layer.layer(GatedInner::new(w.inner.clone()));
            let horizon = if capped { Duration::from_secs(hours * 3600) } else { Duration::from_secs(200 * YEAR) };
            let res = w.block_on(async {
                let _ = futures::future::poll_fn(|cx| Service::<Req>::poll_ready(&mut svc, cx)).await;
                tokio::time::timeout(horizon, svc.call(Req::new(1, 0))).await.is_err()
            });
            let n = w.inner.lock().unwrap().calls.len();
            (res, n)
        }));
        ctx.rep.evaluations += 1;
        let site = if capped { "RetryLayer capped exponential backoff" } else { "RetryLayer exponential_backoff" };
        match r {
            Err(_) => ctx.viol("panic", site, format!("retry 100ms doubling, capped={capped}, dead backend"), json!({}), "the retry loop panicked against an always-failing backend".into()),
            Ok((_timed_out, n)) => {
                ctx.rep.extra.insert(format!("retry_dead_backend_capped_{capped}"), json!({"attempts": n}));
                if capped {
                    ctx.rep.witness("retry_loop_survived_attempt_68", (n > 70) as u64);
                } else {
                    ctx.rep.witness("uncapped_retry_loop_ran", (n > 20) as u64);
                }
            }
        }
    }
    let distinct = ctx.seen.len() as u64;
    drop(ctx);
    rep.distinct_count_override = Some(distinct);
    rep.require_witness("reconnect_loop_survived_attempt_68");
    rep.require_witness("retry_loop_survived_attempt_68");
    rep.require_witness("uncapped_retry_loop_ran");
    rep.bounds = json!({"attempt_points": atts.len(), "configurations": configs, "jitter_draws_per_point": 16});
    rep.sample(json!({"initial": "100ms", "multiplier": 2.0, "max_interval": "5s", "attempt": 68}));
    rep.sample(json!({"initial": "1s", "multiplier": 10.0, "max_interval": null, "attempt": usize::MAX}));
    rep
}
