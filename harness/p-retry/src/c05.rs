//! C05 — retry: bounded attempts, last outcome, backoff, budget.
//! Engine C grid (one request, every outcome script) + engine A (several requests sharing a budget).

use serde_json::json;
use std::sync::atomic::{AtomicUsize, Ordering};
use std::sync::{Arc, Mutex};
use std::time::Duration;
use tower::{Layer, Service};
use tower_resilience_retry::{ExponentialBackoff, FnInterval, RetryBudget, RetryBudgetBuilder, RetryLayer};
use trv_core::evidence::{Report, Tier, Violation};
use trv_core::inner::{CallStatus, GatedInner, InnerErr, Mode, Out, Plan, Req};
use trv_core::svcx::{self, Action, Counts, Scenario, Viol};
use trv_core::world::{drive_ready, Outcome, Phase, World};

/// Budget wrapper that records grants / refusals / deposits together with the number of
/// inner calls made so far (so "every retry is preceded by its own grant" can be checked).
pub struct RecBudget {
    inner: Arc<dyn RetryBudget>,
    pub grants: AtomicUsize,
    pub refusals: AtomicUsize,
    pub deposits: AtomicUsize,
    /// (event, inner calls made so far): event 'G' grant, 'R' refusal, 'D' deposit
    pub log: Mutex<Vec<(char, usize)>>,
    calls: trv_core::inner::Shared,
    /// balance when the budget was handed to the layer
    pub start_balance: usize,
}

impl RetryBudget for RecBudget {
    fn try_withdraw(&self) -> bool {
        let ok = self.inner.try_withdraw();
        let n = self.calls.lock().unwrap().calls.len();
        if ok {
            self.grants.fetch_add(1, Ordering::SeqCst);
            self.log.lock().unwrap().push(('G', n));
        } else {
            self.refusals.fetch_add(1, Ordering::SeqCst);
            self.log.lock().unwrap().push(('R', n));
        }
        ok
    }
    fn deposit(&self) {
        self.inner.deposit();
        let n = self.calls.lock().unwrap().calls.len();
        self.deposits.fetch_add(1, Ordering::SeqCst);
        self.log.lock().unwrap().push(('D', n));
    }
    fn balance(&self) -> usize {
        self.inner.balance()
    }
}

#[derive(Clone, Copy, Debug, PartialEq)]
pub enum Backoff {
    /// retry at once
    Zero,
    Fixed,
    Exponential,
    Capped,
    Fn,
    /// 900 us: less than a millisecond
    SubMs,
    /// 2.75 ms x 1.5^k: fractional milliseconds
    Fractional,
    /// 1.25 s x 2^k: whole seconds plus a sub-second part
    Seconds,
    /// 10 ms x 3^k capped at 1 s, the cap set AFTER the multiplier (builder setters that
    /// rebuild the policy must carry the other setting over)
    MultThenCap,
    /// the same with the cap set BEFORE the multiplier
    CapThenMult,
    /// 1 ms x 1.1^k capped at 60 s: a gentle multiplier, used for one long outage (80 attempts)
    Gentle,
    /// a stateful policy: its 1st, 3rd, 5th ... evaluation answers 30 ms, the others 5 ms. The
    /// layer must ask once per retry and sleep what it was told
    Stateful,
    /// no backoff setter is called at all: the documented default (100 ms x 2^k) applies, and
    /// the other settings (predicate, budget, attempt limit) must not depend on one being made
    Unset,
}

impl Backoff {
    /// configured delay (ms, rounded *up*: virtual instants are whole milliseconds, so a gap
    /// of g ms satisfies a configured delay d exactly when g >= ceil(d)) before retry k
    /// (1-based): the layer asks the interval function for k-1
    fn delay(&self, k: usize) -> u64 {
        let a = (k - 1) as u32;
        match self {
            Backoff::SubMs => 1,
            Backoff::Seconds => 1250 * 2u64.pow(a),
            Backoff::Fractional => (2.75f64 * 1.5f64.powi(a as i32) - 1e-9).ceil() as u64,
            Backoff::Zero => 0,
            Backoff::Fixed => 10,
            Backoff::Exponential => 10 * 2u64.pow(a),
            Backoff::Capped => (10 * 2u64.pow(a)).min(25),
            Backoff::MultThenCap | Backoff::CapThenMult => (10 * 3u64.pow(a)).min(1000),
            Backoff::Gentle => ((1.1f64.powi(a as i32)).min(60_000.0) - 1e-9).ceil() as u64,
            Backoff::Stateful => if k % 2 == 1 { 30 } else { 5 },
            Backoff::Fn => (a as u64 + 1) * 7,
            Backoff::Unset => 100 * 2u64.pow(a),
        }
    }
}

#[derive(Clone, Copy, Debug, PartialEq)]
pub enum BudgetKind {
    None,
    Token(usize),
    Aimd,
    /// AIMD budget built through the public builder with unequal amounts: every success
    /// deposits 1 token, every retry costs 3, ceiling 4 (starts full)
    AimdCost3,
}

impl BudgetKind {
    /// (tokens a retry costs, tokens a success deposits, ceiling) as configured
    fn amounts(&self) -> Option<(usize, usize, usize)> {
        match self {
            BudgetKind::None => None,
            BudgetKind::Token(_) => Some((1, 1, 2)),
            BudgetKind::Aimd => Some((1, 1, 2)),
            BudgetKind::AimdCost3 => Some((3, 1, 4)),
        }
    }
}

#[derive(Clone, Debug)]
pub struct Cfg {
    pub max_attempts: usize,
    pub per_request: bool,
    pub backoff: Backoff,
    pub predicate: bool,
    pub budget: BudgetKind,
}

impl Cfg {
    pub fn label(&self) -> String {
        format!("retry max_attempts={}{} backoff={:?} predicate={} budget={:?}", self.max_attempts, if self.per_request { "(per request)" } else { "" }, self.backoff, self.predicate, self.budget)
    }
}

type Svc = tower_resilience_retry::Retry<GatedInner, Req, InnerErr>;

pub fn build(cfg: &Cfg, shared: trv_core::inner::Shared) -> (Svc, Option<Arc<RecBudget>>) {
    // every configuration with an even fixed attempt limit starts from the aggressive() preset
    // (5 attempts, exponential backoff from 50 ms) and overrides both settings
    let mut b = if !cfg.per_request && cfg.max_attempts % 2 == 0 && !matches!(cfg.backoff, Backoff::Unset) { RetryLayer::<Req, InnerErr>::aggressive() } else { RetryLayer::<Req, InnerErr>::builder() };
    if cfg.per_request {
        // the request's key carries its own attempt limit
        b = b.max_attempts_fn(|r: &Req| r.key as usize);
    } else {
        b = b.max_attempts(cfg.max_attempts);
    }
    b = match cfg.backoff {
        Backoff::Zero => b.fixed_backoff(Duration::ZERO),
        Backoff::Fixed => b.fixed_backoff(Duration::from_millis(10)),
        Backoff::Exponential => b.exponential_backoff(Duration::from_millis(10)),
        Backoff::Capped => b.backoff(ExponentialBackoff::new(Duration::from_millis(10)).max_interval(Duration::from_millis(25))),
        Backoff::Fn => b.backoff(FnInterval::new(|a: usize| Duration::from_millis((a as u64 + 1) * 7))),
        Backoff::SubMs => b.fixed_backoff(Duration::from_micros(900)),
        Backoff::Seconds => b.exponential_backoff(Duration::from_millis(1250)),
        Backoff::Fractional => b.backoff(ExponentialBackoff::new(Duration::from_micros(2750)).multiplier(1.5)),
        Backoff::MultThenCap => b.backoff(ExponentialBackoff::new(Duration::from_millis(10)).multiplier(3.0).max_interval(Duration::from_secs(1))),
        Backoff::Stateful => {
            let evals = Arc::new(AtomicUsize::new(0));
            b.backoff(FnInterval::new(move |_a: usize| if evals.fetch_add(1, Ordering::SeqCst) % 2 == 0 { Duration::from_millis(30) } else { Duration::from_millis(5) }))
        }
        Backoff::Gentle => b.backoff(ExponentialBackoff::new(Duration::from_millis(1)).multiplier(1.1).max_interval(Duration::from_secs(60))),
        Backoff::Unset => b,
        Backoff::CapThenMult => b.backoff(ExponentialBackoff::new(Duration::from_millis(10)).max_interval(Duration::from_secs(1)).multiplier(3.0)),
    };
    if cfg.predicate {
        b = b.retry_on(|e: &InnerErr| e.kind == 0);
    }
    // (odd attempt limits: a no-op listener is registered for every event type)
    if cfg.max_attempts % 2 == 1 {
        b = b.on_retry(|_, _| {}).on_success(|_| {}).on_error(|_| {}).on_budget_exhausted(|_| {}).on_ignored_error(|| {});
    }
    let mut rec = None;
    let raw: Option<Arc<dyn RetryBudget>> = match cfg.budget {
        BudgetKind::None => None,
        BudgetKind::Token(n) => Some(RetryBudgetBuilder::new().token_bucket().max_tokens(2).initial_tokens(n).build()),
        BudgetKind::Aimd => Some(RetryBudgetBuilder::new().aimd().min_budget(1).max_budget(2).build()),
        BudgetKind::AimdCost3 => Some(RetryBudgetBuilder::new().aimd().min_budget(1).max_budget(4).deposit_amount(1).withdraw_amount(3).build()),
    };
    if let Some(raw) = raw {
        let start_balance = raw.balance();
        let r = Arc::new(RecBudget { start_balance, inner: raw, grants: AtomicUsize::new(0), refusals: AtomicUsize::new(0), deposits: AtomicUsize::new(0), log: Mutex::new(vec![]), calls: shared.clone() });
        rec = Some(r.clone());
        b = b.budget(r);
    }
    let layer = b.build();
    (layer.clone().layer(GatedInner::new(shared)), rec)
}

fn outs_of(script: &[u8]) -> Vec<Out> {
    script.iter().map(|o| match o { 0 => Out::Ok, 1 => Out::Err(0), _ => Out::Err(1) }).collect()
}

/// The property's clauses, judged on the inner-call log of one request.
#[allow(clippy::too_many_arguments)]
fn judge(cfg: &Cfg, max: usize, req_id: u32, w: &World, result: &Outcome, rec: Option<&RecBudget>, site: &str, out: &mut Vec<Viol>) -> usize {
    let g = w.inner.lock().unwrap();
    let calls: Vec<&trv_core::inner::CallRec> = g.calls.iter().filter(|c| c.req.id == req_id).collect();
    let n = calls.len();
    let bound = max.max(1);
    if n < 1 {
        out.push(Viol::new("no_attempt", site, "the wrapped service was never invoked".to_string()));
        return n;
    }
    if n > bound {
        out.push(Viol::new("too_many_attempts", site, format!("{n} attempts with max_attempts={max}")));
    }
    for (i, c) in calls.iter().enumerate() {
        let last = i + 1 == n;
        match &c.status {
            CallStatus::Ok(_) if !last => out.push(Viol::new("retried_after_success", site, format!("attempt {} succeeded but {} more attempts followed", i + 1, n - i - 1))),
            CallStatus::Err(e) if !last && cfg.predicate && e.kind != 0 => out.push(Viol::new("retried_refused_error", site, format!("attempt {} failed with an error the predicate refuses, but was retried", i + 1))),
            _ => {}
        }
    }
    // returns exactly the last outcome observed
    let last = calls[n - 1];
    let ok = match (&last.status, result) {
        (CallStatus::Ok(r), Outcome::Ok(r2)) => r == r2,
        (CallStatus::Err(e), Outcome::Inner(e2)) => e == e2,
        _ => false,
    };
    if !ok {
        out.push(Viol::new("not_last_outcome", site, format!("last inner outcome {:?} but the call returned {:?}", last.status, result)));
    }
    // backoff before retry k
    for k in 1..n {
        let prev_end = calls[k - 1].end_ms.unwrap_or(calls[k - 1].start_ms);
        let gap = calls[k].start_ms - prev_end;
        let need = cfg.backoff.delay(k);
        if gap < need {
            out.push(Viol::new("backoff_too_short", site, format!("retry {k} started {gap}ms after the previous attempt failed; configured backoff {need}ms (rounded up to whole milliseconds)")));
        }
    }
    if let Some(rec) = rec {
        let log = rec.log.lock().unwrap();
        // every retry (inner call index i >= 1 of this request) must be preceded by its own grant
        let retries = n - 1;
        let grants = log.iter().filter(|(e, _)| *e == 'G').count();
        if retries > grants {
            out.push(Viol::new("retry_without_grant", site, format!("{retries} retries but only {grants} budget grants (log {:?})", *log)));
        }
    }
    n
}

pub fn grid(tier: Tier) -> Vec<Cfg> {
    let mut v = vec![];
    for max_attempts in 0..=tier.pick(3usize, 4) {
        for per_request in [false, true] {
            for backoff in [Backoff::Zero, Backoff::Fixed, Backoff::Exponential, Backoff::Capped, Backoff::Fn, Backoff::SubMs, Backoff::Fractional, Backoff::Seconds, Backoff::MultThenCap, Backoff::CapThenMult, Backoff::Stateful, Backoff::Unset] {
                for predicate in [false, true] {
                    for budget in [BudgetKind::None, BudgetKind::Token(0), BudgetKind::Token(1), BudgetKind::Token(2), BudgetKind::Aimd, BudgetKind::AimdCost3] {
                        v.push(Cfg { max_attempts, per_request, backoff, predicate, budget });
                    }
                }
            }
        }
    }
    // one long outage: 80 attempts, every one a retryable failure, a gentle multiplier
    v.push(Cfg { max_attempts: 80, per_request: false, backoff: Backoff::Gentle, predicate: false, budget: BudgetKind::None });
    v
}

pub fn run_grid(tier: Tier, rep: &mut Report) {
    let cfgs = grid(tier);
    let mut reported = std::collections::BTreeSet::new();
    for cfg in &cfgs {
        let long = cfg.backoff == Backoff::Gentle;
        let len = cfg.max_attempts.max(1) + 1;
        let total = if long { 1 } else { 3usize.pow(len as u32) };
        for code in 0..total {
            let mut script = vec![];
            let mut c = code;
            for _ in 0..len {
                // (the long outage: retryable errors only)
                script.push(if long { 1 } else { (c % 3) as u8 });
                c /= 3;
            }
            let w = World::new(0, 10, Mode::Script, 1);
            {
                let mut g = w.inner.lock().unwrap();
                for o in outs_of(&script) {
                    g.script.push_back(Plan::now(o));
                }
                g.default_plan = Plan::now(Out::Ok);
            }
            let (mut svc, rec) = build(cfg, w.inner.clone());
            let req = Req::new(1, cfg.max_attempts as u8);
            let r = std::panic::catch_unwind(std::panic::AssertUnwindSafe(|| {
                w.block_on(async {
                    let _ = futures::future::poll_fn(|cx| Service::<Req>::poll_ready(&mut svc, cx)).await;
                    svc.call(req).await
                })
            }));
            rep.evaluations += 1;
            let site = "Retry::call";
            let mut viols = vec![];
            match r {
                Err(_) => viols.push(Viol::new("panic", site, "the retry future panicked".to_string())),
                Ok(res) => {
                    let outcome = match res {
                        Ok(r) => Outcome::Ok(r),
                        Err(e) => Outcome::Inner(e),
                    };
                    let n = judge(cfg, cfg.max_attempts, 1, &w, &outcome, rec.as_deref(), site, &mut viols);
                    if let Some(rec) = &rec {
                        let dep = rec.deposits.load(Ordering::SeqCst);
                        let want = matches!(outcome, Outcome::Ok(_)) as usize;
                        if dep != want {
                            viols.push(Viol::new("deposit_count", site, format!("{dep} deposits for a call that ended {:?}", outcome.tag())));
                        }
                        if rec.refusals.load(Ordering::SeqCst) > 0 {
                            rep.witness("budget_refused_a_retry", 1);
                        }
                        // the budget keeps its books with the *configured* amounts: what the
                        // granted retries cost plus what is left cannot exceed what was there
                        // plus what the successes deposited, and never the ceiling
                        if let Some((cost, amount, ceiling)) = cfg.budget.amounts() {
                            let grants = rec.grants.load(Ordering::SeqCst);
                            let bal = rec.balance();
                            if grants * cost + bal > rec.start_balance + dep * amount {
                                viols.push(Viol::new("budget_books_do_not_balance", site, format!("{grants} granted retries x configured cost {cost} + balance {bal} > start {} + {dep} deposits x configured amount {amount}", rec.start_balance)));
                            }
                            if bal > ceiling {
                                viols.push(Viol::new("budget_above_ceiling", site, format!("balance {bal} above the configured ceiling {ceiling}")));
                            }
                        }
                    }
                    if n > 1 {
                        rep.witness("retried", 1);
                    }
                    rep.outcomes.insert(format!("{}:{}", n, outcome.tag()));
                    rep.distinct.insert(format!("{}|{:?}|{}:{}", cfg.label(), &script[..n.min(script.len())], n, outcome.tag()));
                }
            }
            for v in viols {
                if reported.insert(v.kind.clone()) {
                    rep.violations.push(Violation {
                        property: "C05".into(),
                        kind: v.kind,
                        site: v.site,
                        config: cfg.label(),
                        history: json!({"script": script.iter().map(|o| ["ok", "retryable_err", "non_retryable_err"][*o as usize]).collect::<Vec<_>>()}),
                        detail: v.detail,
                        log: vec![],
                    });
                }
            }
            if code == 5 && rep.samples.len() < 4 {
                rep.sample(json!({"config": cfg.label(), "script": script}));
            }
        }
    }
    rep.bounds = json!({"grid_configurations": cfgs.len(), "scripts_per_configuration": "3^(max(1,max_attempts)+1)"});
}

// ---------------------------------------------------------------------------------------
// engine A: several requests sharing one budget

pub struct Shared {
    pub cfg: Cfg,
    pub callers: usize,
    pub max_ticks: usize,
}

pub struct X {
    svc: Svc,
    rec: Option<Arc<RecBudget>>,
}

impl Scenario for Shared {
    type X = X;
    fn property(&self) -> &'static str {
        "C05"
    }
    fn label(&self) -> String {
        format!("shared-budget {} callers={}", self.cfg.label(), self.callers)
    }
    fn callers(&self) -> usize {
        self.callers
    }
    fn init(&self, w: &mut World) -> X {
        let (svc, rec) = build(&self.cfg, w.inner.clone());
        X { svc, rec }
    }
    fn arrive(&self, w: &mut World, x: &mut X, c: usize, _v: u8) {
        let mut s = x.svc.clone();
        let req = Req::new(c as u32, self.cfg.max_attempts as u8);
        match drive_ready::<_, Req>(&mut s, 4) {
            Ok(Ok(())) => {}
            _ => panic!("retry poll_ready not ready"),
        }
        let fut = s.call(req.clone());
        let fut = Box::pin(async move {
            match fut.await {
                Ok(r) => Outcome::Ok(r),
                Err(e) => Outcome::Inner(e),
            }
        });
        w.set_arrived(c, req, fut);
    }
    fn outs(&self) -> Vec<Out> {
        if self.cfg.predicate {
            vec![Out::Ok, Out::Err(0), Out::Err(1)]
        } else {
            vec![Out::Ok, Out::Err(0)]
        }
    }
    fn drops_enabled(&self) -> bool {
        false
    }
    fn allow(&self, _w: &World, _x: &X, h: &[Action], a: &Action) -> bool {
        let c = Counts::of(h);
        match a {
            Action::Tick => c.ticks < self.max_ticks,
            _ => true,
        }
    }
    fn fingerprint(&self, _w: &World, x: &X) -> String {
        match &x.rec {
            Some(r) => format!("bal{} g{} r{} d{}", r.balance(), r.grants.load(Ordering::SeqCst), r.refusals.load(Ordering::SeqCst), r.deposits.load(Ordering::SeqCst)),
            None => String::new(),
        }
    }
    fn after(&self, w: &mut World, x: &mut X, _a: &Action, out: &mut Vec<Viol>) {
        let site = "Retry::call";
        let g = w.inner.lock().unwrap();
        let mut retries_total = 0;
        for c in 0..self.callers {
            let n = g.calls.iter().filter(|k| k.req.id == c as u32).count();
            if n > self.cfg.max_attempts.max(1) {
                out.push(Viol::new("too_many_attempts", site, format!("caller {c}: {n} attempts with max_attempts={}", self.cfg.max_attempts)));
            }
            retries_total += n.saturating_sub(1);
        }
        if let Some(rec) = &x.rec {
            let grants = rec.grants.load(Ordering::SeqCst);
            if retries_total > grants {
                out.push(Viol::new("retry_without_grant", site, format!("{retries_total} retries in total but only {grants} grants")));
            }
        }
        drop(g);
        for (c, cl) in w.callers.iter().enumerate() {
            if let Phase::Done(o) = &cl.phase {
                let mut v = vec![];
                judge(&self.cfg, self.cfg.max_attempts, c as u32, w, o, None, site, &mut v);
                out.extend(v);
            }
        }
    }
    fn witnesses(&self, w: &World, x: &X, _h: &[Action]) -> Vec<&'static str> {
        let mut v = vec![];
        if let Some(r) = &x.rec {
            if r.refusals.load(Ordering::SeqCst) > 0 && r.grants.load(Ordering::SeqCst) > 0 {
                v.push("one_request_granted_another_refused");
            }
        }
        let sleeping = (0..w.callers.len()).filter(|&c| w.callers[c].is_live() && w.callers[c].polls > 0 && !w.callers[c].flag_set()).count();
        if sleeping >= 2 {
            v.push("two_requests_backing_off");
        }
        v
    }
    fn epilogue(&self, w: &mut World, x: &mut X, out: &mut Vec<Viol>) -> String {
        if !svcx::drain(w, 30) {
            out.push(Viol::new("caller_never_resolves", "Retry::call", format!("callers {:?} unresolved after draining", w.live_callers())));
            return "stuck".into();
        }
        let mut v = vec![];
        self.after(w, x, &Action::Tick, &mut v);
        out.extend(v);
        let sig: Vec<String> = w.callers.iter().map(|c| match &c.phase { Phase::Done(o) => o.tag(), p => format!("{p:?}") }).collect();
        format!("{sig:?}")
    }
}

pub fn shared_configs(tier: Tier) -> Vec<Shared> {
    let mut v = vec![];
    for tokens in [1usize, 2] {
        for max_attempts in tier.pick(vec![2usize], vec![2usize, 3]) {
            v.push(Shared {
                cfg: Cfg { max_attempts, per_request: false, backoff: Backoff::Fixed, predicate: false, budget: BudgetKind::Token(tokens) },
                callers: tier.pick(2, 3),
                max_ticks: tier.pick(3, 5),
            });
        }
    }
    v.push(Shared { cfg: Cfg { max_attempts: 2, per_request: false, backoff: Backoff::Fixed, predicate: false, budget: BudgetKind::Aimd }, callers: tier.pick(2, 3), max_ticks: tier.pick(3, 4) });
    v.push(Shared { cfg: Cfg { max_attempts: 3, per_request: false, backoff: Backoff::Zero, predicate: false, budget: BudgetKind::Token(1) }, callers: tier.pick(2, 3), max_ticks: 1 });
    if tier == Tier::Thorough {
        // no budget, a predicate, backoffs of different shapes: two and three overlapping requests
        for backoff in [Backoff::Exponential, Backoff::Fn, Backoff::Fractional] {
            for predicate in [false, true] {
                v.push(Shared { cfg: Cfg { max_attempts: 3, per_request: false, backoff, predicate, budget: BudgetKind::None }, callers: 2, max_ticks: 6 });
            }
        }
        v.push(Shared { cfg: Cfg { max_attempts: 2, per_request: true, backoff: Backoff::Fixed, predicate: true, budget: BudgetKind::Token(2) }, callers: 3, max_ticks: 4 });
    }
    v
}
