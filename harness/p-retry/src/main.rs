//! C05 / C08 / C14 — retry layer, retry budgets, backoff functions.

mod c05;
mod c05_threads;
mod c08;
mod c14;

use serde_json::json;
use std::time::Duration;
use trv_core::evidence::{Report, Tier};
use trv_core::seq;
use trv_core::svcx::{self, Opts};

trv_core::install_clock_seam!();

fn main() {
    trv_core::startup();
    let cli = trv_core::parse_cli();
    let tier = cli.tier;
    match cli.property.as_str() {
        "C05" => {
            if let Some(p) = cli.replay {
                let v = trv_core::load_replay(&p);
                if let Some(ch) = v["history"]["thread_schedule"].as_array() {
                    let choices: Vec<usize> = ch.iter().filter_map(|x| x.as_u64().map(|u| u as usize)).collect();
                    match c05_threads::replay(v["config"].as_str().unwrap_or(""), &choices, v["kind"].as_str().unwrap_or("")) {
                        Some(true) => {
                            println!("VIOLATION property=C05 replay={p}");
                            std::process::exit(1);
                        }
                        Some(false) => {
                            println!("replay: the recorded violation does not occur on the current tree");
                            std::process::exit(0);
                        }
                        None => {
                            eprintln!("MACHINERY no thread configuration with that label");
                            std::process::exit(2);
                        }
                    }
                }
                if v["config"].as_str().unwrap_or("").starts_with("shared-budget") {
                    let mut c = c05::shared_configs(Tier::Quick);
                    c.extend(c05::shared_configs(Tier::Thorough));
                    svcx::replay_main("C05", &p, c);
                }
                // grid point: re-run the whole (cheap) grid and report whether the kind recurs
                let mut rep = Report::new("C05", Tier::Thorough, "model_checking");
                c05::run_grid(Tier::Thorough, &mut rep);
                let kind = v["kind"].as_str().unwrap_or("");
                if rep.violations.iter().any(|x| x.kind == kind) {
                    println!("VIOLATION property=C05 replay={p}");
                    std::process::exit(1);
                }
                println!("replay: the recorded violation does not occur on the current tree");
                std::process::exit(0);
            }
            let mut rep = Report::new("C05", tier, "model_checking");
            rep.rule = "grid: every outcome script over {ok, retryable error, non-retryable error} of length max(1,max_attempts)+1 x max_attempts (fixed and per request) x 4 backoff policies x predicate x 5 budgets, one request each under virtual time; plus BFS over schedules of 2-3 requests sharing one budget with gated inner calls. distinct = distinct (configuration, consumed script prefix, attempts, outcome)".into();
            rep.assumptions = vec!["the budget is observed through a recording wrapper implementing the public RetryBudget trait".into()];
            c05::run_grid(tier, &mut rep);
            for w in ["retried", "budget_refused_a_retry", "one_request_granted_another_refused", "two_requests_backing_off"] {
                rep.require_witness(w);
            }
            for cfg in c05::shared_configs(tier) {
                let opts = Opts { max_depth: tier.pick(11, 16), time_cap: Duration::from_secs(tier.pick(30, 600)), ..Opts::default() };
                let ex = svcx::explore(&cfg, &opts, &mut rep);
                if tier == Tier::Thorough && cfg.callers == 2 {
                    svcx::validate_abstraction(&cfg, 6, &ex.fingerprints, ex.depth_completed, &mut rep);
                }
            }
            // thread level: whole requests sharing one budget on OS threads (engine B)
            c05_threads::run(tier, &mut rep);
            rep.assumptions.push("thread level (engine B): scheduling points are the atomic steps of the shared retry budget (repo feature verif-hooks); sequentially consistent memory; inner service fails every call, zero backoff".into());
            rep.require_witness("retry_granted_on_a_thread");
            rep.require_witness("retry_refused_on_a_thread");
            trv_core::finish(rep);
        }
        "C08" => {
            if let Some(p) = cli.replay {
                c08::replay(&p);
            }
            let mut rep = Report::new("C08", tier, "model_checking");
            rep.rule = "preemption-bounded DFS (bounds 0,1,2; thorough: unbounded + one spurious CAS failure) over all interleavings of the atomic steps of 2-3 threads running try_withdraw/deposit programs on the real budgets; states = distinct (return values, final balance) outcomes, transitions = schedules executed; each outcome compared with all sequential executions of the same operations on the real structure".into();
            rep.assumptions = vec![
                "sequentially consistent memory (every property-relevant location is a single atomic)".into(),
                "scheduling points are the instrumented atomic operations (cargo feature verif-hooks)".into(),
            ];
            rep.require_witness("schedules_with_preemption");
            rep.require_witness("config_with_several_outcomes");
            let cfgs = c08::configs(tier);
            rep.bounds = json!({"configurations": cfgs.len(), "preemption_bounds": tier.pick("0,1,2", "0,1,2,unbounded"), "spurious_cas_failures": tier.pick(0, 1)});
            seq::par_configs(&cfgs, &mut rep, |c, r| c08::check_cfg(c, tier, r));
            trv_core::finish(rep);
        }
        "C14" => {
            if let Some(p) = cli.replay {
                let v = trv_core::load_replay(&p);
                if v["kind"] == "does_not_return" {
                    *c14::REPLAYING.lock().unwrap() = Some(p.clone());
                }
                let rep = c14::run(Tier::Quick);
                let kind = v["kind"].as_str().unwrap_or("");
                let site = v["site"].as_str().unwrap_or("");
                if rep.violations.iter().any(|x| x.kind == kind && x.site == site) {
                    println!("VIOLATION property=C14 replay={p}");
                    std::process::exit(1);
                }
                println!("replay: the recorded violation does not occur on the current tree");
                std::process::exit(0);
            }
            let rep = c14::run(tier);
            trv_core::finish(rep);
        }
        p => {
            eprintln!("p-retry serves C05, C08, C14, not {p}");
            std::process::exit(2);
        }
    }
}
