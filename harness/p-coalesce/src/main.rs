//! C11 — coalesce: one inner call per key, shared result, no stranded waiters (engine A).

use serde_json::json;
use std::time::Duration;
use tower::{Layer, Service};
use tower_resilience_coalesce::{CoalesceError, CoalesceLayer};
use trv_core::evidence::{Report, Tier};
use trv_core::inner::{CallStatus, GatedInner, Out, Req};
use trv_core::svcx::{self, Action, Counts, Opts, Scenario, Viol};
use trv_core::world::{drive_ready, CallerFut, Outcome, Phase, PollResult, World};

mod threads;

trv_core::install_clock_seam!();

struct Co {
    callers: usize,
    keys: u8,
    max_drops: usize,
    max_panics: usize,
    /// the first inner call panics synchronously inside call()
    sync_panic_first: bool,
    /// every service handle may be dropped while calls are in flight (a per-connection service
    /// that goes away, `svc.clone().oneshot(req)` with the original moved): an explored action
    handles_may_go: bool,
    /// requests may also be issued from a `Drop` that runs while the thread unwinds from an
    /// unrelated panic (a lease guard that sends a release request through the client)
    arrivals_during_unwinding: bool,
}

#[derive(Clone, Debug, PartialEq)]
enum Role {
    Leader(usize),
    /// waiter on inner call k
    Waiter(usize),
    /// joined although no call for its key was in flight
    Orphan,
}

struct X {
    start: Option<Box<dyn FnMut(Req) -> CallerFut>>,
    roles: Vec<Option<Role>>,
    /// callers whose request was issued while the thread was unwinding
    unwound: Vec<usize>,
    /// before a Poll: the leader call's status as seen before the poll
    pre_leader_status: Option<CallStatus>,
    saw_cancelled: bool,
    saw_shared_ok: bool,
    saw_shared_err: bool,
}

fn live_call_for_key(w: &World, key: u8) -> Option<usize> {
    let g = w.inner.lock().unwrap();
    g.calls.iter().find(|k| k.req.key == key && k.status == CallStatus::Pending).map(|k| k.k)
}

impl Scenario for Co {
    type X = X;
    fn property(&self) -> &'static str {
        "C11"
    }
    fn label(&self) -> String {
        format!("coalesce callers={} keys={}{}", self.callers, self.keys, if self.sync_panic_first { " first-inner-call-panics-in-call()" } else if self.handles_may_go { " service-handles-may-be-dropped" } else if self.arrivals_during_unwinding { " requests-issued-while-unwinding" } else { "" })
    }
    fn callers(&self) -> usize {
        self.callers
    }
    fn ticks_enabled(&self) -> bool {
        false
    }
    fn retain_completed(&self) -> bool {
        true
    }
    fn init(&self, w: &mut World) -> X {
        // keys with a deliberately weak Hash: every key used here collides with every other
        let layer = CoalesceLayer::new(|r: &Req| trv_core::inner::WeakKey(r.key));
        if self.sync_panic_first {
            w.inner.lock().unwrap().sync_panic_calls = vec![0];
        }
        let svc = layer.clone().layer(GatedInner::new(w.inner.clone()));
        let start: Box<dyn FnMut(Req) -> CallerFut> = Box::new(move |req: Req| {
            let mut s = svc.clone();
            drive_ready::<_, Req>(&mut s, 4).expect("ready").ok();
            // the inner service may panic inside call() itself: the leading request then
            // panics before any future exists
            let f = match std::panic::catch_unwind(std::panic::AssertUnwindSafe(|| s.call(req))) {
                Ok(f) => f,
                Err(_) => return Box::pin(async { Outcome::Layer("PanickedInCall".into()) }),
            };
            // (errors are judged on a clone of what was returned: the leader's error reaches the
            // waiters through Clone, and a layer stacked on this one would clone it again)
            trv_core::world::keep(f, |r| match r.map_err(|e| e.clone()) {
                Ok(r) => Outcome::Ok(r),
                Err(CoalesceError::Service(e)) => Outcome::Inner(e),
                Err(CoalesceError::LeaderCancelled) => Outcome::Layer("LeaderCancelled".into()),
                Err(CoalesceError::RecvError) => Outcome::Layer("RecvError".into()),
            })
        });
        X { start: Some(start), roles: vec![None; 16], unwound: vec![], pre_leader_status: None, saw_cancelled: false, saw_shared_ok: false, saw_shared_err: false }
    }
    fn arrive_variants(&self, _w: &World, _x: &X, _c: usize) -> Vec<u8> {
        // variants keys..2*keys: the same keys, the request issued during unwinding
        if self.arrivals_during_unwinding {
            (0..2 * self.keys).collect()
        } else {
            (0..self.keys).collect()
        }
    }
    fn arrive(&self, w: &mut World, x: &mut X, c: usize, v: u8) {
        let unwinding = v >= self.keys;
        let v = v % self.keys;
        if unwinding {
            x.unwound.push(c);
        }
        let req = Req::new(c as u32, v);
        let live_before = live_call_for_key(w, v);
        let start = x.start.as_mut().expect("arrival after the service handles were dropped");
        let fut = if unwinding {
            struct OnDrop<F: FnMut()>(F);
            impl<F: FnMut()> Drop for OnDrop<F> {
                fn drop(&mut self) {
                    (self.0)()
                }
            }
            let mut made = None;
            let r2 = req.clone();
            let _ = std::panic::catch_unwind(std::panic::AssertUnwindSafe(|| {
                let _guard = OnDrop(|| made = Some(start(r2.clone())));
                panic!("an unrelated panic: the guard's Drop issues the request while the thread unwinds");
            }));
            made.expect("the guard ran")
        } else {
            start(req.clone())
        };
        w.set_arrived(c, req.clone(), fut);
        let own = w.inner_calls_for_req(req.id);
        x.roles[c] = Some(match (own.first(), live_before) {
            (Some(&k), _) => Role::Leader(k),
            (None, Some(k)) => Role::Waiter(k),
            (None, None) => Role::Orphan,
        });
    }
    fn outs(&self) -> Vec<Out> {
        vec![Out::Ok, Out::Err(0), Out::Panic]
    }
    fn ctl_actions(&self, w: &World, x: &X) -> Vec<u8> {
        // Ctl(0): the last service handle goes away (with calls in flight)
        if self.handles_may_go && x.start.is_some() && !w.live_callers().is_empty() {
            vec![0]
        } else {
            vec![]
        }
    }
    fn apply_ctl(&self, _w: &mut World, x: &mut X, _ctl: u8) {
        x.start = None;
    }
    fn allow(&self, _w: &World, x: &X, h: &[Action], a: &Action) -> bool {
        let c = Counts::of(h);
        match a {
            Action::Arrive(..) if x.start.is_none() => false,
            Action::Drop(_) => c.drops < self.max_drops,
            Action::Complete(_, Out::Panic) => c.panics < self.max_panics,
            _ => true,
        }
    }
    fn fingerprint(&self, _w: &World, x: &X) -> String {
        format!("{:?}{}{}", &x.roles[..self.callers], if x.start.is_none() { "/handles-dropped" } else { "" }, if x.unwound.is_empty() { String::new() } else { format!("/issued-while-unwinding{:?}", x.unwound) })
    }
    fn before(&self, w: &World, x: &mut X, a: &Action) {
        x.pre_leader_status = None;
        if let Action::Poll(c) = a {
            if let Some(Role::Waiter(k)) = &x.roles[*c as usize] {
                x.pre_leader_status = Some(w.call_status(*k));
            }
        }
    }
    fn after(&self, w: &mut World, x: &mut X, a: &Action, out: &mut Vec<Viol>) {
        let site = "coalesce";
        // at most one inner call in flight per key
        {
            let g = w.inner.lock().unwrap();
            for key in 0..self.keys {
                let live: Vec<usize> = g.calls.iter().filter(|k| k.req.key == key && k.status == CallStatus::Pending).map(|k| k.k).collect();
                if live.len() > 1 {
                    out.push(Viol::new("two_inner_calls_for_one_key", site, format!("inner calls {live:?} for key {key} are in flight together")));
                }
            }
        }
        if let Action::Arrive(c, v) = a {
            let c = *c as usize;
            match &x.roles[c] {
                Some(Role::Orphan) => out.push(Viol::new(
                    "key_not_usable",
                    site,
                    format!("caller {c} arrived for key {v} with no call in flight for it, yet it started no inner call of its own"),
                )),
                Some(Role::Leader(_)) => {}
                Some(Role::Waiter(_)) => {}
                None => {}
            }
        }
        for c in 0..w.callers.len().min(x.roles.len()) {
            let cl = &w.callers[c];
            let Some(role) = x.roles[c].clone() else { continue };
            let Some(req) = cl.req.clone() else { continue };
            match (&role, &cl.phase) {
                (Role::Waiter(k), Phase::Done(o)) => {
                    let own = w.inner_calls_for_req(req.id);
                    if !own.is_empty() {
                        out.push(Viol::new("waiter_made_inner_call", site, format!("caller {c} joined call {k} but also made inner calls {own:?}")));
                    }
                    let st = w.call_status(*k);
                    let ok = match (&st, o) {
                        (CallStatus::Ok(r), Outcome::Ok(r2)) => {
                            x.saw_shared_ok = true;
                            r == r2
                        }
                        (CallStatus::Err(e), Outcome::Inner(e2)) => {
                            x.saw_shared_err = true;
                            e == e2
                        }
                        (CallStatus::Dropped | CallStatus::Panicked, Outcome::Layer(t)) if t == "LeaderCancelled" => {
                            x.saw_cancelled = true;
                            true
                        }
                        _ => false,
                    };
                    if !ok {
                        out.push(Viol::new("waiter_wrong_result", site, format!("caller {c} (key {}) waited on call {k} which ended {:?}, but received {:?}", req.key, st, o)));
                    }
                }
                (Role::Leader(k), Phase::Done(o)) => {
                    let st = w.call_status(*k);
                    let ok = match (&st, o) {
                        (CallStatus::Ok(r), Outcome::Ok(r2)) => r == r2,
                        (CallStatus::Err(e), Outcome::Inner(e2)) => e == e2,
                        // the inner service panicked inside call(): the leading request panicked too
                        (CallStatus::Panicked, Outcome::Layer(t)) => t == "PanickedInCall",
                        _ => false,
                    };
                    if !ok {
                        out.push(Viol::new("leader_wrong_result", site, format!("leader {c} call {k} ended {:?} but returned {:?}", st, o)));
                    }
                }
                _ => {}
            }
        }
        // a waiter polled after its leader's outcome was published resolves in that poll
        if let (Action::Poll(c), Some(st)) = (a, &x.pre_leader_status) {
            let c = *c as usize;
            if *st != CallStatus::Pending && w.callers[c].is_live() {
                out.push(Viol::new("waiter_not_prompt", site, format!("caller {c}'s leader call had already ended ({st:?}) but its poll returned Pending")));
            }
            if *st == CallStatus::Pending && !w.callers[c].is_live() {
                // resolved although the leader is still running
                if let Some(Role::Waiter(k)) = &x.roles[c] {
                    if w.call_status(*k) == CallStatus::Pending {
                        out.push(Viol::new("waiter_resolved_early", site, format!("caller {c} resolved {:?} while its leader call {k} is still running", w.callers[c].phase)));
                    }
                }
            }
        }
    }
    fn witnesses(&self, w: &World, x: &X, h: &[Action]) -> Vec<&'static str> {
        let mut v = vec![];
        if x.saw_cancelled {
            v.push("waiter_saw_leader_cancelled");
        }
        if x.saw_shared_ok {
            v.push("waiter_shared_ok_result");
        }
        if x.saw_shared_err {
            v.push("waiter_shared_error_result");
        }
        if let Some(Action::Drop(c)) = h.last() {
            let done = matches!(w.callers[*c as usize].phase, Phase::Done(_));
            match &x.roles[*c as usize] {
                Some(Role::Leader(_)) if done => v.push("completed_leader_future_dropped_late"),
                Some(Role::Leader(_)) => v.push("leader_dropped"),
                Some(Role::Waiter(_)) if !done => v.push("waiter_dropped"),
                _ => {}
            }
        }
        if w.callers.iter().any(|c| c.phase == Phase::Panicked) {
            v.push("leader_panicked");
        }
        let waiters = (0..self.callers).filter(|&c| matches!(x.roles[c], Some(Role::Waiter(_))) && w.callers[c].is_live()).count();
        if waiters >= 2 {
            v.push("two_waiters_on_one_leader");
        }
        // a key reused after completion
        let g = w.inner.lock().unwrap();
        for key in 0..self.keys {
            if g.calls.iter().filter(|k| k.req.key == key).count() >= 2 {
                v.push("fresh_call_after_previous_one_ended");
            }
        }
        v.dedup();
        v
    }
    fn epilogue(&self, w: &mut World, x: &mut X, out: &mut Vec<Viol>) -> String {
        let site = "coalesce";
        // open every gate, then every caller must resolve within two polls
        let gateable = w.inner.lock().unwrap().gateable();
        for k in gateable {
            w.complete(k, Out::Ok);
        }
        // leaders first (they publish), then waiters: any order must work, so use index order twice
        for _round in 0..2 {
            for c in 0..w.callers.len() {
                if w.callers[c].is_live() {
                    let r = w.poll_caller(c);
                    let _: PollResult = r;
                }
            }
        }
        if !w.live_callers().is_empty() {
            out.push(Viol::new("waits_forever", site, format!("callers {:?} still pending two polls after every inner call completed", w.live_callers())));
            return "stuck".into();
        }
        let mut v = vec![];
        self.after(w, x, &Action::Tick, &mut v);
        out.extend(v);
        for c in 0..w.callers.len() {
            if w.has_retained(c) {
                w.release_done(c);
            }
        }
        if x.start.is_none() {
            return "handles-dropped".into();
        }
        // every key is usable again: a fresh request starts a fresh inner call at once
        let mut fresh = vec![];
        for key in 0..self.keys {
            let c = w.add_caller();
            w.begin_step();
            let before = w.inner.lock().unwrap().calls.len();
            self.arrive(w, x, c, key);
            let after = w.inner.lock().unwrap().calls.len();
            fresh.push(after == before + 1);
            if after != before + 1 {
                out.push(Viol::new("key_not_usable", site, format!("after everything completed, a fresh request for key {key} started {} inner calls", after - before)));
            }
            w.drop_caller(c);
        }
        let sig: Vec<String> = w.callers.iter().map(|c| match &c.phase { Phase::Done(o) => o.tag(), p => format!("{p:?}") }).collect();
        format!("{sig:?}{fresh:?}")
    }
}

fn configs(tier: Tier) -> Vec<Co> {
    vec![
        Co { callers: tier.pick(3, 4), keys: 2, max_drops: tier.pick(2, 3), max_panics: 1, sync_panic_first: false, handles_may_go: false, arrivals_during_unwinding: false },
        Co { callers: 3, keys: 2, max_drops: 1, max_panics: 0, sync_panic_first: true, handles_may_go: false, arrivals_during_unwinding: false },
        Co { callers: 3, keys: 2, max_drops: 1, max_panics: 0, sync_panic_first: false, handles_may_go: true, arrivals_during_unwinding: false },
        Co { callers: 3, keys: 1, max_drops: 1, max_panics: 0, sync_panic_first: false, handles_may_go: false, arrivals_during_unwinding: true },
    ]
}

fn main() {
    trv_core::startup();
    let cli = trv_core::parse_cli();
    if cli.property != "C11" {
        eprintln!("p-coalesce serves C11");
        std::process::exit(2);
    }
    if let Some(p) = cli.replay.clone() {
        let v = trv_core::load_replay(&p);
        if let Some(ch) = v["history"]["thread_schedule"].as_array() {
            let choices: Vec<usize> = ch.iter().filter_map(|x| x.as_u64().map(|u| u as usize)).collect();
            match threads::replay(v["config"].as_str().unwrap_or(""), &choices, v["kind"].as_str().unwrap_or("")) {
                Some(true) => {
                    println!("VIOLATION property=C11 replay={p}");
                    std::process::exit(1);
                }
                Some(false) => {
                    println!("replay: the recorded violation does not occur on the current tree");
                    std::process::exit(0);
                }
                None => {
                    eprintln!("MACHINERY no thread configuration with that label");
                    std::process::exit(2);
                }
            }
        }
    }
    if let Some(p) = cli.replay {
        let mut c = configs(Tier::Quick);
        c.extend(configs(Tier::Thorough));
        svcx::replay_main("C11", &p, c);
    }
    let tier = cli.tier;
    let mut rep = Report::new("C11", tier, "model_checking");
    rep.rule = "BFS over action histories {Arrive(key A|B),Poll,Drop,Complete(ok|err|panic)} of the real CoalesceService with 3-4 callers on clones; leaders and waiters dropped at every point; every state also drained (all gates opened, two polls each) and every key probed with a fresh request".into();
    rep.assumptions = vec!["interleaving granularity is one Future::poll (shared state is a parking_lot mutex + a broadcast channel)".into()];
    for w in ["completed_leader_future_dropped_late", "waiter_saw_leader_cancelled", "waiter_shared_ok_result", "waiter_shared_error_result", "leader_dropped", "waiter_dropped", "leader_panicked", "two_waiters_on_one_leader", "fresh_call_after_previous_one_ended"] {
        rep.require_witness(w);
    }
    let depth = tier.pick(10, 13);
    rep.bounds = json!({"depth": depth, "callers": tier.pick(3,4), "keys": 2, "max_drops": 2, "max_panics": 1});
    for cfg in configs(tier) {
        let opts = Opts { max_depth: depth, time_cap: Duration::from_secs(tier.pick(40, 900)), ..Opts::default() };
        let ex = svcx::explore(&cfg, &opts, &mut rep);
        if tier == Tier::Thorough {
            let small = Co { callers: 3, keys: 2, max_drops: 2, max_panics: 1, sync_panic_first: false, handles_may_go: false, arrivals_during_unwinding: false };
            let _ = ex;
            let mut scratch = Report::new("C11", tier, "model_checking");
            let ex3 = svcx::explore(&small, &Opts { max_depth: 6, ..Opts::default() }, &mut scratch);
            svcx::validate_abstraction(&small, 6, &ex3.fingerprints, ex3.depth_completed, &mut rep);
        }
    }
    // thread level: all interleavings of the in-flight map's critical sections
    threads::run(tier, &mut rep);
    rep.require_witness("thread_schedules_with_preemption");
    rep.require_witness("thread_config_with_several_outcomes");
    rep.require_witness("threads_shared_one_inner_call");
    rep.assumptions.push("thread level (engine B): scheduling points are the lock acquisitions of the in-flight map (repo feature verif-hooks), one point inside every inner call and one per fruitless poll of a waiter; sequentially consistent memory".into());
    trv_core::finish(rep);
}
