//! C11, thread level (engine B): several OS threads send requests through clones of one real
//! CoalesceService; the scheduler explores every interleaving of the critical sections of
//! the in-flight map (the repository's `verif-hooks` mutex yields before every acquisition)
//! and of the inner call's completion (the harness's inner future yields once while it is
//! "in flight"). At every scheduling point at most one inner call per key may be in flight;
//! every request must resolve, with the result of an inner call for its own key.

use std::collections::BTreeMap;
use std::future::Future;
use std::pin::Pin;
use std::sync::{Arc, Mutex};
use std::task::{Context, Poll};
use tower::{Layer, Service};
use tower_resilience_coalesce::{CoalesceError, CoalesceLayer};
use trv_core::evidence::{Report, Tier};
use trv_core::ilv::{self, LinCheck, OpFn, Spec};
use trv_core::inner::{InnerErr, Req, Resp};

#[derive(Default)]
struct Log {
    next_serial: u32,
    /// (key, serial) of every inner call started
    started: Vec<(u8, u32)>,
    in_flight: BTreeMap<u8, usize>,
    max_in_flight: usize,
}

#[derive(Clone)]
struct YInner {
    log: Arc<Mutex<Log>>,
}

struct YFut {
    log: Arc<Mutex<Log>>,
    key: u8,
    serial: u32,
    req: u32,
    yielded: bool,
    done: bool,
}

impl Future for YFut {
    type Output = Result<Resp, InnerErr>;
    fn poll(mut self: Pin<&mut Self>, _cx: &mut Context<'_>) -> Poll<Self::Output> {
        if !self.yielded {
            self.yielded = true;
            // the inner call is in flight: let other threads run
            tower_resilience_core::verif::yield_point("inner_call_in_flight");
        }
        self.done = true;
        let mut g = self.log.lock().unwrap();
        *g.in_flight.entry(self.key).or_default() -= 1;
        Poll::Ready(Ok(Resp { serial: self.serial, req: self.req, key: self.key }))
    }
}

impl Drop for YFut {
    fn drop(&mut self) {
        if !self.done {
            let mut g = self.log.lock().unwrap();
            *g.in_flight.entry(self.key).or_default() -= 1;
        }
    }
}

impl Service<Req> for YInner {
    type Response = Resp;
    type Error = InnerErr;
    type Future = YFut;
    fn poll_ready(&mut self, _cx: &mut Context<'_>) -> Poll<Result<(), InnerErr>> {
        Poll::Ready(Ok(()))
    }
    fn call(&mut self, req: Req) -> YFut {
        let mut g = self.log.lock().unwrap();
        g.next_serial += 1;
        let serial = g.next_serial;
        g.started.push((req.key, serial));
        let n = {
            let e = g.in_flight.entry(req.key).or_default();
            *e += 1;
            *e
        };
        g.max_in_flight = g.max_in_flight.max(n);
        YFut { log: self.log.clone(), key: req.key, serial, req: req.id, yielded: false, done: false }
    }
}

type Svc = tower_resilience_coalesce::CoalesceService<YInner, trv_core::inner::WeakKey, Req, fn(&Req) -> trv_core::inner::WeakKey>;
type Pending = Pin<Box<dyn Future<Output = Result<Resp, CoalesceError<InnerErr>>> + Send>>;

pub struct Shared {
    svc: Svc,
    log: Arc<Mutex<Log>>,
    /// futures still pending when their thread gave up polling: (key, future)
    leftover: Mutex<Vec<(u8, Pending)>>,
}

/// keys with a deliberately weak Hash (all of them collide)
fn key_of(r: &Req) -> trv_core::inner::WeakKey {
    trv_core::inner::WeakKey(r.key)
}

#[derive(Clone)]
pub struct TCfg {
    /// per thread: keys of its requests, in order
    pub programs: Vec<Vec<u8>>,
}

impl TCfg {
    pub fn label(&self) -> String {
        format!("coalesce threads request_keys_per_thread={:?}", self.programs)
    }
    fn spec(&self) -> Spec<Shared, i64> {
        let mk = |key: u8| -> OpFn<Shared, i64> {
            Arc::new(move |s: &Shared| {
                let mut svc = s.svc.clone();
                let waker = ilv::noop_waker();
                let mut cx = Context::from_waker(&waker);
                match svc.poll_ready(&mut cx) {
                    Poll::Ready(Ok(())) => {}
                    _ => return -9,
                }
                let mut fut: Pending = Box::pin(svc.call(Req::new(key as u32, key)));
                for round in 0..4 {
                    match fut.as_mut().poll(&mut cx) {
                        Poll::Ready(Ok(r)) => return if r.key == key { r.serial as i64 } else { -7 },
                        Poll::Ready(Err(CoalesceError::LeaderCancelled)) => return -1,
                        Poll::Ready(Err(_)) => return -2,
                        Poll::Pending => {
                            if round < 3 {
                                tower_resilience_core::verif::yield_point("waiting_for_leader");
                            }
                        }
                    }
                }
                s.leftover.lock().unwrap().push((key, fut));
                -3
            })
        };
        Spec {
            name: self.label(),
            make: Arc::new(|| {
                let log = Arc::new(Mutex::new(Log::default()));
                let f: fn(&Req) -> trv_core::inner::WeakKey = key_of;
                let layer = CoalesceLayer::new(f);
                Shared { svc: layer.layer(YInner { log: log.clone() }), log, leftover: Mutex::new(vec![]) }
            }),
            threads: self.programs.iter().map(|keys| keys.iter().map(|k| (format!("request(key {k})"), mk(*k))).collect()).collect(),
            install_hook: Arc::new(|| tower_resilience_core::verif::set_yield_hook(Some(Box::new(|op| ilv::yield_point(op))))),
            uninstall_hook: Arc::new(|| tower_resilience_core::verif::set_yield_hook(None)),
            step_check: Arc::new(|s: &Shared| {
                let g = s.log.lock().unwrap();
                for (k, n) in g.in_flight.iter() {
                    if *n > 1 {
                        return Some(format!("{n} inner calls for key {k} are in flight at once"));
                    }
                }
                None
            }),
            spurious: false,
        }
    }
}

pub fn configs(tier: Tier) -> Vec<TCfg> {
    let mut v = vec![TCfg { programs: vec![vec![0], vec![0]] }, TCfg { programs: vec![vec![0], vec![0], vec![0]] }, TCfg { programs: vec![vec![0], vec![0], vec![1]] }];
    if tier == Tier::Thorough {
        v.push(TCfg { programs: vec![vec![0, 0], vec![0]] });
        v.push(TCfg { programs: vec![vec![0, 0], vec![0, 0]] });
        v.push(TCfg { programs: vec![vec![0, 1], vec![1, 0]] });
        v.push(TCfg { programs: vec![vec![0], vec![0], vec![0], vec![0]] });
    }
    v
}

fn observe(s: &Shared) -> String {
    let g = s.log.lock().unwrap();
    format!("inner_calls={:?}", g.started)
}

fn extra(x: &ilv::Execution<i64>, s: &Shared) -> Vec<(String, String)> {
    let mut v = vec![];
    // requests that were still waiting when their thread stopped polling must resolve now
    // (everything else has finished: there is nothing left to wait for)
    let mut late: Vec<(u8, i64)> = vec![];
    let waker = ilv::noop_waker();
    let mut cx = Context::from_waker(&waker);
    let mut left = std::mem::take(&mut *s.leftover.lock().unwrap());
    for (key, fut) in left.iter_mut() {
        let mut res = -3;
        for _ in 0..4 {
            match fut.as_mut().poll(&mut cx) {
                Poll::Ready(Ok(r)) => {
                    res = if r.key == *key { r.serial as i64 } else { -7 };
                    break;
                }
                Poll::Ready(Err(CoalesceError::LeaderCancelled)) => {
                    res = -1;
                    break;
                }
                Poll::Ready(Err(_)) => {
                    res = -2;
                    break;
                }
                Poll::Pending => {}
            }
        }
        late.push((*key, res));
    }
    drop(left);
    let g = s.log.lock().unwrap();
    for (key, res) in &late {
        if *res == -3 {
            v.push(("waits_forever".to_string(), format!("a request for key {key} is still pending after every other request has finished (inner calls {:?})", g.started)));
        }
    }
    if g.max_in_flight > 1 {
        v.push(("two_inner_calls_for_one_key".to_string(), format!("inner calls {:?}: {} of one key were in flight at once", g.started, g.max_in_flight)));
    }
    let all: Vec<i64> = x.returns.iter().flatten().copied().filter(|r| *r != -3).chain(late.iter().map(|l| l.1)).collect();
    for r in all {
        if r == -7 {
            v.push(("result_of_another_key".to_string(), "a request received the response of a call for another key".to_string()));
        } else if r < 0 && r != -3 {
            v.push(("unexpected_error".to_string(), format!("a request failed with code {r} although no leader was cancelled and no inner call failed")));
        } else if r > 0 && !g.started.iter().any(|(_, s)| *s as i64 == r) {
            v.push(("result_from_nowhere".to_string(), format!("a request received serial {r}, which no inner call produced")));
        }
    }
    let requests: usize = x.returns.iter().map(|t| t.len()).sum();
    if g.started.len() < requests {
        v.push(("witness:threads_shared_one_inner_call".to_string(), String::new()));
    }
    if !late.is_empty() {
        v.push(("witness:waiter_resolved_after_its_thread_stopped_polling".to_string(), String::new()));
    }
    if g.started.len() > requests || (requests > 0 && g.started.is_empty()) {
        v.push(("inner_call_count".to_string(), format!("{} inner calls for {requests} requests", g.started.len())));
    }
    v
}

fn lin<'a>(cfg: &TCfg, spec: &'a Spec<Shared, i64>, tier: Tier) -> LinCheck<'a, Shared, i64> {
    LinCheck {
        property: "C11",
        site: "coalesce_threads",
        label: cfg.label(),
        spec,
        // unbounded only for two single-request threads (a waiter's fruitless polls are
        // scheduling points too, so larger programs have 10+ points per thread)
        bounds: if tier == Tier::Thorough {
            let small = cfg.programs.len() == 2 && cfg.programs.iter().all(|p| p.len() == 1);
            if small { vec![Some(0), Some(1), Some(2), Some(3), None] } else { vec![Some(0), Some(1), Some(2), Some(3)] }
        } else {
            vec![Some(0), Some(1), Some(2)]
        },
        max_schedules: tier.pick(100_000, 400_000),
        observe: &observe,
        extra: &extra,
        linearizable: false,
    }
}

pub fn run(tier: Tier, rep: &mut Report) {
    for cfg in configs(tier) {
        let spec = cfg.spec();
        let c = lin(&cfg, &spec, tier);
        ilv::check_linearizable(&c, rep);
    }
}

pub fn replay(label: &str, choices: &[usize], kind: &str) -> Option<bool> {
    let mut all = configs(Tier::Quick);
    all.extend(configs(Tier::Thorough));
    for cfg in all {
        if cfg.label() == label {
            let spec = cfg.spec();
            let c = lin(&cfg, &spec, Tier::Thorough);
            return Some(ilv::replay_schedule(&c, choices, kind));
        }
    }
    None
}
