//! One execution's world: paused runtime + clock seam + gated inner + manually polled callers.

use crate::clock;
use crate::inner::{self, CallStatus, InnerErr, Mode, Out, Req, Resp, Shared};
use std::future::Future;
use std::panic::{catch_unwind, AssertUnwindSafe};
use std::pin::Pin;
use std::sync::atomic::{AtomicBool, AtomicU64, Ordering};
use std::sync::{Arc, Mutex};
use std::task::{Context, Poll, Wake, Waker};
use std::time::Duration;

/// Normalised outcome of a call through the service under test.
#[derive(Clone, Debug, PartialEq, Eq, Hash, PartialOrd, Ord)]
pub enum Outcome {
    Ok(Resp),
    /// inner error passed through (in the layer's pass-through variant)
    Inner(InnerErr),
    /// error produced by the layer itself; short stable tag
    Layer(String),
}

impl Outcome {
    pub fn tag(&self) -> String {
        match self {
            Outcome::Ok(_) => "ok".into(),
            Outcome::Inner(_) => "inner_err".into(),
            Outcome::Layer(s) => format!("layer:{s}"),
        }
    }
}

pub type CallerFut = Pin<Box<dyn Future<Output = Outcome>>>;

#[derive(Clone, Debug, PartialEq, Eq)]
pub enum Phase {
    NotArrived,
    Live,
    Done(Outcome),
    Panicked,
    Dropped,
}

struct RootWake {
    waker: Mutex<Option<Waker>>,
}

pub struct WakeFlag {
    set: AtomicBool,
    count: AtomicU64,
    root: Arc<RootWake>,
}

impl Wake for WakeFlag {
    fn wake(self: Arc<Self>) {
        self.wake_by_ref()
    }
    fn wake_by_ref(self: &Arc<Self>) {
        self.set.store(true, Ordering::SeqCst);
        self.count.fetch_add(1, Ordering::SeqCst);
        let w = self.root.waker.lock().unwrap().clone();
        if let Some(w) = w {
            w.wake();
        }
    }
}

pub struct Caller {
    pub fut: Option<CallerFut>,
    pub phase: Phase,
    pub flag: Arc<WakeFlag>,
    pub req: Option<Req>,
    pub polls: u32,
    pub arrived_ms: Option<u64>,
    pub arrived_step: Option<usize>,
    pub first_poll_ms: Option<u64>,
    pub first_poll_seq: Option<u64>,
    pub last_poll_ms: Option<u64>,
    pub wakes_at_last_poll_end: u64,
    pub seen_wakes: u64,
    /// instant at which the wake flag was last observed newly set by the world
    pub woken_ms: Option<u64>,
    pub done_ms: Option<u64>,
    pub done_step: Option<usize>,
    pub dropped_ms: Option<u64>,
    /// scenario scratch
    pub user: i64,
}

impl Caller {
    pub fn flag_set(&self) -> bool {
        self.flag.set.load(Ordering::SeqCst)
    }
    pub fn wake_count(&self) -> u64 {
        self.flag.count.load(Ordering::SeqCst)
    }
    pub fn is_live(&self) -> bool {
        self.phase == Phase::Live
    }
}

struct RtHolder {
    // declared first: must drop before the runtime
    guard: Option<tokio::runtime::EnterGuard<'static>>,
    rt: Option<Box<tokio::runtime::Runtime>>,
}

impl Drop for RtHolder {
    fn drop(&mut self) {
        self.guard.take();
        clock::disable();
        self.rt.take();
    }
}

pub struct World {
    pub callers: Vec<Caller>,
    pub inner: Shared,
    pub origin: tokio::time::Instant,
    pub grid_ms: u64,
    pub step: usize,
    pub ticks: u32,
    pub poll_seq: u64,
    /// free-form observation log (virtual ms, text) for replays
    pub log: Vec<(u64, String)>,
    pub trace: bool,
    /// keep the future of a caller that has resolved until it is released explicitly (as
    /// `join!` / `select!` loops do); default: drop it right after it resolves
    pub retain_done: bool,
    /// the next poll_caller happens in a task tick whose cooperative budget is already used up
    /// (the task did other ready work first): tokio's own primitives then answer Pending
    /// without looking at their state. Reset by that poll.
    pub starve_next_poll: bool,
    /// ticks taken although a woken caller had not been polled (late-poll deviations)
    pub late_ticks: usize,
    root: Arc<RootWake>,
    // last: dropped after callers (futures may hold timers)
    holder: RtHolder,
}

#[derive(Clone, Debug, PartialEq, Eq)]
pub enum PollResult {
    Pending,
    Done(Outcome),
    Panicked,
}

#[derive(Clone, Copy, Debug, PartialEq, Eq)]
pub enum TickEnd {
    Woken,
    Grid,
}

impl World {
    pub fn new(n_callers: usize, grid_ms: u64, mode: Mode, seed: u64) -> World {
        let mut b = tokio::runtime::Builder::new_current_thread();
        b.enable_time().start_paused(true);
        let mut bytes = [0u8; 8];
        bytes.copy_from_slice(&seed.to_le_bytes());
        b.rng_seed(tokio::runtime::RngSeed::from_bytes(&bytes));
        let rt = Box::new(b.build().expect("runtime"));
        // SAFETY: the guard is dropped before the boxed runtime (RtHolder::drop), and the box
        // gives the runtime a stable address.
        let guard: tokio::runtime::EnterGuard<'static> =
            unsafe { std::mem::transmute(rt.enter()) };
        let origin = tokio::time::Instant::now();
        clock::enable(origin);
        let root = Arc::new(RootWake { waker: Mutex::new(None) });
        let callers = (0..n_callers)
            .map(|_| Caller {
                fut: None,
                phase: Phase::NotArrived,
                flag: Arc::new(WakeFlag {
                    set: AtomicBool::new(false),
                    count: AtomicU64::new(0),
                    root: root.clone(),
                }),
                req: None,
                polls: 0,
                arrived_ms: None,
                arrived_step: None,
                first_poll_ms: None,
                first_poll_seq: None,
                last_poll_ms: None,
                wakes_at_last_poll_end: 0,
                seen_wakes: 0,
                woken_ms: None,
                done_ms: None,
                done_step: None,
                dropped_ms: None,
                user: 0,
            })
            .collect();
        World {
            callers,
            inner: inner::new_shared(origin, mode),
            origin,
            grid_ms,
            step: 0,
            ticks: 0,
            poll_seq: 0,
            log: Vec::new(),
            trace: false,
            retain_done: false,
            starve_next_poll: false,
            late_ticks: 0,
            root,
            holder: RtHolder { guard: Some(guard), rt: Some(rt) },
        }
    }

    pub fn rt(&self) -> &tokio::runtime::Runtime {
        self.holder.rt.as_ref().unwrap()
    }

    pub fn now_ms(&self) -> u64 {
        tokio::time::Instant::now().saturating_duration_since(self.origin).as_millis() as u64
    }

    pub fn note(&mut self, s: impl Into<String>) {
        if self.trace {
            let t = self.now_ms();
            self.log.push((t, s.into()));
        }
    }

    pub fn begin_step(&mut self) {
        self.step += 1;
        self.inner.lock().unwrap().step = self.step;
    }

    pub fn add_caller(&mut self) -> usize {
        let root = self.root.clone();
        self.callers.push(Caller {
            fut: None,
            phase: Phase::NotArrived,
            flag: Arc::new(WakeFlag { set: AtomicBool::new(false), count: AtomicU64::new(0), root }),
            req: None,
            polls: 0,
            arrived_ms: None,
            arrived_step: None,
            first_poll_ms: None,
            first_poll_seq: None,
            last_poll_ms: None,
            wakes_at_last_poll_end: 0,
            seen_wakes: 0,
            woken_ms: None,
            done_ms: None,
            done_step: None,
            dropped_ms: None,
            user: 0,
        });
        self.callers.len() - 1
    }

    /// Register the future of caller `c` (created by the scenario).
    pub fn set_arrived(&mut self, c: usize, req: Req, fut: CallerFut) {
        let now = self.now_ms();
        let step = self.step;
        let cl = &mut self.callers[c];
        assert!(cl.phase == Phase::NotArrived, "caller {c} arrived twice");
        cl.fut = Some(fut);
        cl.phase = Phase::Live;
        cl.req = Some(req);
        cl.arrived_ms = Some(now);
        cl.arrived_step = Some(step);
        self.note(format!("arrive c{c}"));
    }

    /// A caller resolved without a future (e.g. poll_ready error at arrival).
    pub fn set_resolved_at_arrival(&mut self, c: usize, req: Req, out: Outcome) {
        let now = self.now_ms();
        let step = self.step;
        let cl = &mut self.callers[c];
        cl.req = Some(req);
        cl.arrived_ms = Some(now);
        cl.arrived_step = Some(step);
        cl.phase = Phase::Done(out);
        cl.done_ms = Some(now);
        cl.done_step = Some(step);
    }

    pub fn needs_poll(&self, c: usize) -> bool {
        let cl = &self.callers[c];
        if !cl.is_live() {
            return false;
        }
        if cl.polls == 0 {
            return true;
        }
        if !cl.flag_set() {
            return false;
        }
        // a future that wakes itself on every poll counts as polled after one fruitless poll
        cl.wake_count() > cl.wakes_at_last_poll_end || cl.last_poll_ms != Some(self.now_ms())
    }

    pub fn pollable(&self, c: usize) -> bool {
        let cl = &self.callers[c];
        cl.is_live() && (cl.polls == 0 || cl.flag_set())
    }

    pub fn any_needs_poll(&self) -> bool {
        (0..self.callers.len()).any(|c| self.needs_poll(c))
    }

    pub fn poll_caller(&mut self, c: usize) -> PollResult {
        self.begin_step();
        let now = self.now_ms();
        let step = self.step;
        self.poll_seq += 1;
        let seq = self.poll_seq;
        let cl = &mut self.callers[c];
        assert!(cl.is_live(), "poll of non-live caller {c}");
        cl.flag.set.store(false, Ordering::SeqCst);
        cl.polls += 1;
        if cl.first_poll_ms.is_none() {
            cl.first_poll_ms = Some(now);
            cl.first_poll_seq = Some(seq);
        }
        cl.last_poll_ms = Some(now);
        let waker = Waker::from(cl.flag.clone());
        let mut cx = Context::from_waker(&waker);
        let fut = cl.fut.as_mut().unwrap();
        // The poll happens inside block_on: only there does tokio seed the thread's RNG from
        // the runtime's (fixed) seed generator; outside it `select!` would pick its start
        // branch from a randomly seeded thread-local generator.
        let rt = self.holder.rt.as_ref().unwrap();
        let starve = std::mem::replace(&mut self.starve_next_poll, false);
        let r = rt.block_on(std::future::poll_fn(|_| {
            if starve {
                // (bounded: block_on installs a budget of 128)
                for _ in 0..256 {
                    match tokio::task::coop::poll_proceed(&mut cx) {
                        Poll::Ready(step) => step.made_progress(),
                        Poll::Pending => break,
                    }
                }
            }
            let r = catch_unwind(AssertUnwindSafe(|| fut.as_mut().poll(&mut cx)));
            // A tokio primitive that finds the budget used up answers Pending and *defers* a
            // wake-up of the task to the scheduler, which delivers it as soon as the task has
            // yielded. This block_on ends with the poll, and its deferred wake-ups with it: the
            // harness delivers the wake-up itself.
            Poll::Ready((r, !tokio::task::coop::has_budget_remaining()))
        }));
        let (r, budget_used_up) = r;
        let res = match r {
            Ok(Poll::Pending) => PollResult::Pending,
            Ok(Poll::Ready(o)) => {
                cl.phase = Phase::Done(o.clone());
                cl.done_ms = Some(now);
                cl.done_step = Some(step);
                PollResult::Done(o)
            }
            Err(_) => {
                cl.phase = Phase::Panicked;
                cl.done_ms = Some(now);
                cl.done_step = Some(step);
                PollResult::Panicked
            }
        };
        if res != PollResult::Pending && !(self.retain_done && matches!(res, PollResult::Done(_))) {
            // drop the future (under catch_unwind: drop impls of the code under test may run)
            let f = cl.fut.take();
            let _ = catch_unwind(AssertUnwindSafe(move || drop(f)));
        }
        let cl = &mut self.callers[c];
        cl.wakes_at_last_poll_end = cl.wake_count();
        if budget_used_up && cl.is_live() {
            // (delivered after the poll, as the scheduler would: it counts as a new wake-up)
            waker.wake_by_ref();
        }
        self.note(format!("poll c{c} -> {:?}", res));
        self.settle();
        res
    }

    pub fn drop_caller(&mut self, c: usize) {
        self.begin_step();
        let now = self.now_ms();
        let cl = &mut self.callers[c];
        assert!(cl.is_live(), "drop of non-live caller {c}");
        let f = cl.fut.take();
        let _ = catch_unwind(AssertUnwindSafe(move || drop(f)));
        cl.phase = Phase::Dropped;
        cl.dropped_ms = Some(now);
        self.note(format!("drop c{c}"));
        self.settle();
    }

    /// Drop the retained future of a caller that has already resolved.
    pub fn release_done(&mut self, c: usize) {
        self.begin_step();
        let cl = &mut self.callers[c];
        assert!(matches!(cl.phase, Phase::Done(_)) && cl.fut.is_some(), "release of caller {c} without a retained future");
        let f = cl.fut.take();
        let _ = catch_unwind(AssertUnwindSafe(move || drop(f)));
        self.note(format!("release completed future of c{c}"));
        self.settle();
    }

    pub fn has_retained(&self, c: usize) -> bool {
        matches!(self.callers[c].phase, Phase::Done(_)) && self.callers[c].fut.is_some()
    }

    /// Open the gate of inner call k.
    pub fn complete(&mut self, k: usize, out: Out) {
        self.begin_step();
        let w = self.inner.lock().unwrap().open_gate(k, out);
        if let Some(w) = w {
            w.wake();
        }
        self.note(format!("complete k{k} {:?}", out));
        self.settle();
    }

    /// Let held inner instance #idx become ready (see `InnerState::hold_late_ready`).
    pub fn release_ready(&mut self, idx: usize) {
        self.begin_step();
        let w = self.inner.lock().unwrap().release_ready(idx);
        if let Some(w) = w {
            w.wake();
        }
        self.note(format!("inner instance held #{idx} becomes ready"));
        self.settle();
    }

    /// The held inner instance #idx fails its readiness (next poll_ready returns an error).
    pub fn release_ready_err(&mut self, idx: usize) {
        self.begin_step();
        let w = self.inner.lock().unwrap().release_ready_err(idx);
        if let Some(w) = w {
            w.wake();
        }
        self.note(format!("inner instance held #{idx} reports a readiness error"));
        self.settle();
    }

    /// Let tokio-spawned internal tasks run until nothing changes (bounded), without
    /// letting virtual time move.
    pub fn settle(&mut self) {
        let rt = self.holder.rt.as_ref().unwrap();
        rt.block_on(async {
            for _ in 0..12 {
                tokio::task::yield_now().await;
            }
        });
        self.stamp_wakes();
    }

    fn stamp_wakes(&mut self) {
        let now = self.now_ms();
        for cl in self.callers.iter_mut() {
            let n = cl.wake_count();
            if n > cl.seen_wakes {
                cl.seen_wakes = n;
                cl.woken_ms = Some(now);
            }
        }
    }

    /// Advance virtual time to the next event: the earliest timer that wakes a caller, or
    /// the next grid point.
    pub fn tick(&mut self) -> TickEnd {
        self.begin_step();
        let now = self.now_ms();
        let next_grid = (now / self.grid_ms + 1) * self.grid_ms;
        let deadline = self.origin + Duration::from_millis(next_grid);
        let counts: Vec<u64> = self.callers.iter().map(|c| c.wake_count()).collect();
        let flags: Vec<Arc<WakeFlag>> = self.callers.iter().map(|c| c.flag.clone()).collect();
        let root = self.root.clone();
        let rt = self.holder.rt.as_ref().unwrap();
        let end = rt.block_on(NextEvent {
            sleep: Box::pin(tokio::time::sleep_until(deadline)),
            flags,
            counts,
            root: root.clone(),
        });
        *root.waker.lock().unwrap() = None;
        self.ticks += 1;
        let t = self.now_ms();
        self.stamp_wakes();
        self.note(format!("tick -> {t} ({:?})", end));
        self.settle();
        end
    }

    /// Advance virtual time by exactly `ms` (all timers inside fire in order).
    pub fn advance(&mut self, ms: u64) {
        self.begin_step();
        let rt = self.holder.rt.as_ref().unwrap();
        rt.block_on(async {
            tokio::time::sleep(Duration::from_millis(ms)).await;
        });
        self.settle();
    }

    /// Run an async block to completion on the world's runtime (virtual time auto-advances).
    /// Number of tasks alive on this world's runtime.
    pub fn alive_tasks(&self) -> usize {
        self.holder.rt.as_ref().map_or(0, |rt| rt.metrics().num_alive_tasks())
    }

    pub fn block_on<F: Future>(&self, f: F) -> F::Output {
        self.holder.rt.as_ref().unwrap().block_on(f)
    }

    pub fn live_callers(&self) -> Vec<usize> {
        (0..self.callers.len()).filter(|&c| self.callers[c].is_live()).collect()
    }

    pub fn inner_live(&self) -> usize {
        self.inner.lock().unwrap().live()
    }

    /// Inner calls made for caller c's request id.
    pub fn inner_calls_for_req(&self, req_id: u32) -> Vec<usize> {
        self.inner.lock().unwrap().calls.iter().filter(|k| k.req.id == req_id).map(|k| k.k).collect()
    }

    pub fn call_status(&self, k: usize) -> CallStatus {
        self.inner.lock().unwrap().calls[k].status.clone()
    }
}

struct NextEvent {
    sleep: Pin<Box<tokio::time::Sleep>>,
    flags: Vec<Arc<WakeFlag>>,
    counts: Vec<u64>,
    root: Arc<RootWake>,
}

impl Future for NextEvent {
    type Output = TickEnd;
    fn poll(mut self: Pin<&mut Self>, cx: &mut Context<'_>) -> Poll<TickEnd> {
        *self.root.waker.lock().unwrap() = Some(cx.waker().clone());
        let woken = self
            .flags
            .iter()
            .zip(self.counts.iter())
            .any(|(f, c)| f.count.load(Ordering::SeqCst) > *c);
        if woken {
            return Poll::Ready(TickEnd::Woken);
        }
        match self.sleep.as_mut().poll(cx) {
            Poll::Ready(()) => Poll::Ready(TickEnd::Grid),
            Poll::Pending => Poll::Pending,
        }
    }
}

/// Maps the output of the service's own future to an `Outcome` *without* dropping that
/// future when it resolves (an `async` block or `FutureExt::map` would drop it on
/// completion): together with `World::retain_done` this models callers such as `join!`,
/// which keep completed futures alive until all of them are done.
pub struct Keep<F: Future, M> {
    fut: Pin<Box<F>>,
    map: Option<M>,
}

impl<F: Future, M: FnOnce(F::Output) -> Outcome + Unpin> Future for Keep<F, M> {
    type Output = Outcome;
    fn poll(mut self: Pin<&mut Self>, cx: &mut Context<'_>) -> Poll<Outcome> {
        let this = &mut *self;
        if this.map.is_none() {
            panic!("Keep polled after completion");
        }
        match this.fut.as_mut().poll(cx) {
            Poll::Pending => Poll::Pending,
            Poll::Ready(o) => Poll::Ready((this.map.take().unwrap())(o)),
        }
    }
}

pub fn keep<F: Future + 'static, M: FnOnce(F::Output) -> Outcome + Unpin + 'static>(f: F, map: M) -> CallerFut {
    Box::pin(Keep { fut: Box::pin(f), map: Some(map) })
}

/// Drive `poll_ready` of a tower service to `Ready` with a no-op waker (bounded spins).
pub fn drive_ready<S, R>(svc: &mut S, max_spins: usize) -> Result<Result<(), S::Error>, ()>
where
    S: tower::Service<R>,
{
    let waker = futures::task::noop_waker();
    let mut cx = Context::from_waker(&waker);
    for _ in 0..max_spins {
        match svc.poll_ready(&mut cx) {
            Poll::Ready(r) => return Ok(r),
            Poll::Pending => continue,
        }
    }
    Err(())
}
