//! Reports, evidence files, violation replays and the known-findings matcher.

use serde_json::{json, Value};
use std::collections::{BTreeMap, BTreeSet};
use std::path::PathBuf;
use std::time::Instant;

#[derive(Clone, Copy, Debug, PartialEq, Eq)]
pub enum Tier {
    Quick,
    Thorough,
}

impl Tier {
    pub fn name(&self) -> &'static str {
        match self {
            Tier::Quick => "quick",
            Tier::Thorough => "thorough",
        }
    }
    pub fn pick<T>(&self, q: T, t: T) -> T {
        match self {
            Tier::Quick => q,
            Tier::Thorough => t,
        }
    }
}

#[derive(Clone, Debug)]
pub struct Violation {
    pub property: String,
    /// stable name of the violated oracle clause
    pub kind: String,
    /// middleware / call site / window type
    pub site: String,
    /// scenario configuration label (used to find the scenario again for replay)
    pub config: String,
    /// action list / schedule / input point
    pub history: Value,
    pub detail: String,
    pub log: Vec<String>,
}

impl Violation {
    pub fn key(&self) -> String {
        format!("{} kind={} site={}", self.property, self.kind, self.site)
    }
}

pub fn verif_dir() -> PathBuf {
    if let Ok(d) = std::env::var("VERIF_DIR") {
        return PathBuf::from(d);
    }
    PathBuf::from("/verif")
}

#[derive(Clone, Debug)]
pub struct KnownFinding {
    pub property: String,
    pub kind: String,
    pub site: String,
    pub status: String,
    pub what: String,
}

pub fn load_known_findings() -> Vec<KnownFinding> {
    let p = verif_dir().join("known_findings.json");
    let Ok(s) = std::fs::read_to_string(&p) else { return vec![] };
    let Ok(v) = serde_json::from_str::<Value>(&s) else {
        eprintln!("MACHINERY: cannot parse {}", p.display());
        std::process::exit(2);
    };
    let mut out = vec![];
    if let Some(a) = v.get("findings").and_then(|a| a.as_array()) {
        for f in a {
            let g = |k: &str| f.get(k).and_then(|x| x.as_str()).unwrap_or("").to_string();
            out.push(KnownFinding {
                property: g("property"),
                kind: g("kind"),
                site: g("site"),
                status: g("status"),
                what: g("what"),
            });
        }
    }
    out
}

pub struct Report {
    pub property: String,
    pub tier: Tier,
    pub seed: i64,
    pub level: &'static str,
    pub started: Instant,
    // model-checking counters
    pub states: u64,
    pub transitions: u64,
    pub executions: u64,
    // exploration counters
    pub evaluations: u64,
    pub distinct: BTreeSet<String>,
    pub distinct_count_override: Option<u64>,
    pub rule: String,
    pub samples: Vec<Value>,
    pub exhaustive: bool,
    pub caps: Vec<String>,
    pub bounds: Value,
    pub configs: Vec<Value>,
    pub witnesses: BTreeMap<String, u64>,
    pub required_witnesses: Vec<String>,
    pub outcomes: BTreeSet<String>,
    pub replay_checks: u64,
    pub replay_divergences: u64,
    pub violations: Vec<Violation>,
    pub machinery: Vec<String>,
    pub assumptions: Vec<String>,
    pub extra: BTreeMap<String, Value>,
}

impl Report {
    pub fn new(property: &str, tier: Tier, level: &'static str) -> Report {
        let seed = std::env::var("VERIF_SEED").ok().and_then(|s| s.parse().ok()).unwrap_or(0);
        Report {
            property: property.to_string(),
            tier,
            seed,
            level,
            started: Instant::now(),
            states: 0,
            transitions: 0,
            executions: 0,
            evaluations: 0,
            distinct: BTreeSet::new(),
            distinct_count_override: None,
            rule: String::new(),
            samples: vec![],
            exhaustive: true,
            caps: vec![],
            bounds: json!({}),
            configs: vec![],
            witnesses: BTreeMap::new(),
            required_witnesses: vec![],
            outcomes: BTreeSet::new(),
            replay_checks: 0,
            replay_divergences: 0,
            violations: vec![],
            machinery: vec![],
            assumptions: vec![],
            extra: BTreeMap::new(),
        }
    }

    pub fn witness(&mut self, name: &str, n: u64) {
        *self.witnesses.entry(name.to_string()).or_insert(0) += n;
    }

    pub fn require_witness(&mut self, name: &str) {
        if !self.required_witnesses.iter().any(|w| w == name) {
            self.required_witnesses.push(name.to_string());
        }
        self.witnesses.entry(name.to_string()).or_insert(0);
    }

    /// Merge the counters of a per-configuration report into this one.
    pub fn merge(&mut self, o: Report) {
        self.states += o.states;
        self.transitions += o.transitions;
        self.executions += o.executions;
        self.evaluations += o.evaluations;
        self.distinct.extend(o.distinct);
        for s in o.samples {
            if self.samples.len() < 8 {
                self.samples.push(s);
            }
        }
        self.exhaustive &= o.exhaustive;
        self.caps.extend(o.caps);
        self.configs.extend(o.configs);
        for (k, v) in o.witnesses {
            *self.witnesses.entry(k).or_insert(0) += v;
        }
        self.outcomes.extend(o.outcomes);
        self.replay_checks += o.replay_checks;
        self.replay_divergences += o.replay_divergences;
        self.violations.extend(o.violations);
        self.machinery.extend(o.machinery);
        for (k, v) in o.extra {
            match (self.extra.get_mut(&k), v) {
                (Some(Value::Array(a)), Value::Array(b)) => a.extend(b),
                (_, v) => {
                    self.extra.insert(k, v);
                }
            }
        }
    }

    pub fn sample(&mut self, v: Value) {
        if self.samples.len() < 6 {
            self.samples.push(v);
        }
    }

    /// Write evidence + replays, print verdict lines, return the process exit code.
    pub fn finish(mut self) -> i32 {
        let dir = verif_dir();
        let known = load_known_findings();
        for w in &self.required_witnesses {
            // exploration stops at a violating state, so vacuity is only judged on clean runs
            if self.violations.is_empty() && self.witnesses.get(w).copied().unwrap_or(0) == 0 {
                self.machinery.push(format!("vacuous: required witness '{w}' never occurred"));
            }
        }
        if self.replay_divergences > 0 {
            self.machinery.push(format!("{} replay divergences", self.replay_divergences));
        }
        // classify violations
        let mut fresh: Vec<&Violation> = vec![];
        let mut known_hits: BTreeMap<String, (u64, String)> = BTreeMap::new();
        for v in &self.violations {
            let hit = known.iter().find(|k| {
                k.status == "open" && k.property == v.property && k.kind == v.kind && k.site == v.site
            });
            match hit {
                Some(k) => {
                    let e = known_hits.entry(v.key()).or_insert((0, k.what.clone()));
                    e.0 += 1;
                }
                None => fresh.push(v),
            }
        }
        // open findings that did not fire are still listed (they are findings, not alarms)
        let mut printed = BTreeSet::new();
        for (k, (n, what)) in &known_hits {
            println!("KNOWN-FINDING: property={} {} [{}; {} witnesses this run]", self.property, what, k, n);
            printed.insert(k.clone());
        }
        // write replays for fresh violations (one per distinct key, shortest first)
        let mut exit = 0;
        let mut by_key: BTreeMap<String, &Violation> = BTreeMap::new();
        for v in &fresh {
            by_key.entry(v.key()).or_insert(v);
        }
        let rdir = dir.join("replays").join(&self.property);
        for (key, v) in &by_key {
            let _ = std::fs::create_dir_all(&rdir);
            let body = json!({
                "property": v.property, "kind": v.kind, "site": v.site, "config": v.config,
                "history": v.history, "detail": v.detail, "log": v.log,
            });
            let name = format!("{:016x}.json", fxhash(key.as_bytes()) ^ fxhash(v.config.as_bytes()));
            let path = rdir.join(name);
            let _ = std::fs::write(&path, serde_json::to_string_pretty(&body).unwrap());
            println!("VIOLATION property={} replay={}", self.property, path.display());
            println!("  kind={} site={} config={}", v.kind, v.site, v.config);
            println!("  history={}", v.history);
            println!("  detail={}", v.detail);
            exit = 1;
        }
        for m in &self.machinery {
            eprintln!("MACHINERY property={} {}", self.property, m);
        }
        if !self.machinery.is_empty() && exit == 0 {
            exit = 2;
        }
        let wall = self.started.elapsed().as_secs_f64();
        let distinct_n = self.distinct_count_override.unwrap_or(self.distinct.len() as u64);
        let mut cov = serde_json::Map::new();
        if self.level == "model_checking" {
            cov.insert("states".into(), json!(self.states));
            cov.insert("transitions".into(), json!(self.transitions));
            cov.insert("traces_validated_against_impl".into(), json!(self.executions));
            cov.insert(
                "explanation".into(),
                json!("every explored trace is an execution of the unmodified implementation (stateless re-execution); reference models, where used, run in lock-step with it"),
            );
            if self.evaluations > 0 {
                cov.insert("evaluations".into(), json!(self.evaluations));
                cov.insert("distinct_nontrivial".into(), json!(distinct_n));
            }
        } else {
            cov.insert("evaluations".into(), json!(self.evaluations));
            cov.insert("distinct_nontrivial".into(), json!(distinct_n));
        }
        cov.insert("rule".into(), json!(self.rule));
        cov.insert("samples".into(), json!(self.samples));
        cov.insert("exhaustive".into(), json!(self.exhaustive && self.caps.is_empty()));
        cov.insert("caps_hit".into(), json!(self.caps));
        cov.insert("bounds".into(), self.bounds.clone());
        cov.insert("configurations".into(), json!(self.configs));
        cov.insert("witnesses".into(), json!(self.witnesses));
        cov.insert("distinct_outcomes".into(), json!(self.outcomes.len()));
        cov.insert("outcomes".into(), json!(self.outcomes.iter().take(40).collect::<Vec<_>>()));
        cov.insert("replay_checks".into(), json!(self.replay_checks));
        cov.insert("replay_divergences".into(), json!(self.replay_divergences));
        cov.insert(
            "known_findings_matched".into(),
            json!(known_hits.iter().map(|(k, (n, _))| json!({"key": k, "witnesses": n})).collect::<Vec<_>>()),
        );
        cov.insert("machinery_errors".into(), json!(self.machinery));
        for (k, v) in &self.extra {
            cov.insert(k.clone(), v.clone());
        }
        let ev = json!({
            "property_id": self.property,
            "tier": self.tier.name(),
            "seed": self.seed,
            "level": self.level,
            "coverage": Value::Object(cov),
            "assumptions": self.assumptions,
            "wall_s": wall,
            "violations": by_key.len(),
        });
        let edir = dir.join("evidence");
        let _ = std::fs::create_dir_all(&edir);
        let epath = edir.join(format!("{}.json", self.property));
        if let Err(e) = std::fs::write(&epath, serde_json::to_string_pretty(&ev).unwrap()) {
            eprintln!("MACHINERY cannot write evidence {}: {e}", epath.display());
            if exit == 0 {
                exit = 2;
            }
        }
        println!(
            "{} {} [{}]: states={} transitions={} executions={} evaluations={} distinct={} outcomes={} exhaustive={} caps={:?} violations={} known={} wall={:.1}s",
            self.property,
            self.tier.name(),
            self.level,
            self.states,
            self.transitions,
            self.executions,
            self.evaluations,
            distinct_n,
            self.outcomes.len(),
            self.exhaustive && self.caps.is_empty(),
            self.caps,
            by_key.len(),
            known_hits.len(),
            wall
        );
        let mut ws: Vec<String> = self.witnesses.iter().map(|(k, v)| format!("{k}={v}")).collect();
        ws.sort();
        println!("  witnesses: {}", ws.join(" "));
        exit
    }
}

pub fn fxhash(b: &[u8]) -> u64 {
    // FNV-1a, deterministic across runs
    let mut h: u64 = 0xcbf29ce484222325;
    for x in b {
        h ^= *x as u64;
        h = h.wrapping_mul(0x100000001b3);
    }
    h
}
