//! Engine C: bounded exhaustive sequential histories against a reference model run in
//! lock-step with the implementation (BFS with deduplication on a scenario-supplied key),
//! plus helpers for full finite grids.

use crate::evidence::{Report, Violation};
use crate::svcx::Viol;
use serde_json::{json, Value};
use std::collections::{BTreeSet, HashMap, HashSet};

pub struct SeqOut {
    /// dedup key: reference-model state + implementation's public introspection
    pub key: String,
    pub viols: Vec<Viol>,
    /// observable outcome signature of the last operation (for distinct-outcome counting)
    pub outcome: String,
    pub witnesses: Vec<&'static str>,
    pub log: Vec<String>,
    /// operations enabled after this history (None = the full alphabet)
    pub enabled: Option<Vec<usize>>,
}

pub trait SeqScenario: Sync + Send {
    fn property(&self) -> &'static str;
    fn label(&self) -> String;
    /// the alphabet, simplest first; an operation is identified by its index
    fn ops(&self) -> Vec<String>;
    /// run the history (indices into ops()) from scratch on a fresh implementation + model
    fn run(&self, hist: &[usize], trace: bool) -> SeqOut;
}

pub fn enc_seq(ops: &[String], h: &[usize]) -> Value {
    json!(h.iter().map(|&i| ops[i].clone()).collect::<Vec<_>>())
}

#[derive(Default)]
pub struct SeqStats {
    pub states: u64,
    pub transitions: u64,
    pub depth_completed: usize,
    pub keys: HashSet<u64>,
    pub futures: HashMap<u64, BTreeSet<String>>,
}

/// BFS over histories up to `depth`; dedup on `SeqOut::key` when `dedup`.
pub fn explore_seq<S: SeqScenario>(scn: &S, depth: usize, dedup: bool, rep: &mut Report) -> SeqStats {
    let ops = scn.ops();
    let label = scn.label();
    let mut st = SeqStats::default();
    let mut seen: HashSet<u64> = HashSet::new();
    let root = scn.run(&[], false);
    seen.insert(crate::evidence::fxhash(root.key.as_bytes()));
    st.states = 1;
    absorb(scn, &ops, &label, &[], &root, rep);
    let mut frontier: Vec<(Vec<usize>, Option<Vec<usize>>)> = if root.viols.is_empty() { vec![(vec![], root.enabled)] } else { vec![] };
    rep.sample(json!({"config": label, "history": enc_seq(&ops, &[]), "key": root.key}));
    for d in 1..=depth {
        if frontier.is_empty() {
            st.depth_completed = depth;
            break;
        }
        let mut next = vec![];
        for (h, en) in frontier.iter() {
            let choices: Vec<usize> = en.clone().unwrap_or_else(|| (0..ops.len()).collect());
            for i in choices {
                let mut h2 = h.clone();
                h2.push(i);
                let out = scn.run(&h2, false);
                st.transitions += 1;
                let k = crate::evidence::fxhash(out.key.as_bytes());
                absorb(scn, &ops, &label, &h2, &out, rep);
                let new = seen.insert(k);
                if new || !dedup {
                    if new {
                        st.states += 1;
                        if st.states % 499 == 2 {
                            rep.sample(json!({"config": label, "history": enc_seq(&ops, &h2), "key": out.key}));
                        }
                    }
                    if out.viols.is_empty() {
                        next.push((h2, out.enabled));
                    }
                }
            }
        }
        st.depth_completed = d;
        frontier = next;
    }
    st.keys = seen;
    rep.states += st.states;
    rep.transitions += st.transitions;
    rep.executions += st.transitions + 1;
    rep.configs.push(json!({"config": label, "states": st.states, "transitions": st.transitions, "depth_completed": st.depth_completed, "dedup": dedup}));
    st
}

fn absorb<S: SeqScenario>(scn: &S, ops: &[String], label: &str, h: &[usize], out: &SeqOut, rep: &mut Report) {
    for w in &out.witnesses {
        rep.witness(w, 1);
    }
    if !out.outcome.is_empty() {
        rep.outcomes.insert(out.outcome.clone());
    }
    for v in &out.viols {
        let again = scn.run(h, true);
        rep.replay_checks += 1;
        if !again.viols.iter().any(|v2| v2.kind == v.kind && v2.site == v.site) {
            rep.replay_divergences += 1;
            rep.machinery.push(format!("{label}: violation {} did not reproduce on replay of {}", v.kind, enc_seq(ops, h)));
            continue;
        }
        rep.violations.push(Violation {
            property: scn.property().to_string(),
            kind: v.kind.clone(),
            site: v.site.clone(),
            config: label.to_string(),
            history: enc_seq(ops, h),
            detail: v.detail.clone(),
            log: again.log,
        });
    }
}

/// Replay entry point for engine-C history scenarios.
pub fn replay_seq_main<S: SeqScenario>(prop: &str, path: &str, candidates: Vec<S>) -> ! {
    let v = crate::load_replay(path);
    let label = v["config"].as_str().unwrap_or("");
    let kind = v["kind"].as_str().unwrap_or("");
    for cfg in candidates {
        if cfg.label() == label {
            let ops = cfg.ops();
            let hist: Option<Vec<usize>> = v["history"]
                .as_array()
                .map(|a| a.iter().map(|s| ops.iter().position(|o| Some(o.as_str()) == s.as_str())).collect::<Option<Vec<_>>>())
                .flatten();
            let Some(hist) = hist else {
                eprintln!("MACHINERY replay history does not decode against the scenario alphabet");
                std::process::exit(2);
            };
            let a = cfg.run(&hist, true);
            let b = cfg.run(&hist, true);
            if a.log != b.log || a.key != b.key {
                eprintln!("MACHINERY replay divergence: two runs of the same history differ");
                std::process::exit(2);
            }
            for l in &a.log {
                println!("{l}");
            }
            for x in &a.viols {
                println!("VIOLATED {} site={} : {}", x.kind, x.site, x.detail);
            }
            if a.viols.iter().any(|x| x.kind == kind || kind.is_empty()) {
                println!("VIOLATION property={prop} replay={path}");
                std::process::exit(1);
            }
            println!("replay: the recorded violation does not occur on the current tree");
            std::process::exit(0);
        }
    }
    eprintln!("MACHINERY no configuration labelled '{label}'");
    std::process::exit(2);
}

/// Run `f` over all items on up to `threads` threads, each with its own Report, and merge
/// the reports (in item order, so results are deterministic).
pub fn par_configs<T: Sync, F>(items: &[T], rep: &mut Report, f: F)
where
    F: Fn(&T, &mut Report) + Sync,
{
    use std::sync::atomic::{AtomicUsize, Ordering};
    use std::sync::Mutex;
    let threads = std::thread::available_parallelism().map(|n| n.get()).unwrap_or(8).min(items.len().max(1));
    let next = AtomicUsize::new(0);
    let results: Mutex<Vec<(usize, Report)>> = Mutex::new(vec![]);
    let (prop, tier, level) = (rep.property.clone(), rep.tier, rep.level);
    std::thread::scope(|sc| {
        for _ in 0..threads {
            sc.spawn(|| {
                crate::quiet_panics();
                loop {
                    let i = next.fetch_add(1, Ordering::Relaxed);
                    if i >= items.len() {
                        break;
                    }
                    let mut r = Report::new(&prop, tier, level);
                    f(&items[i], &mut r);
                    results.lock().unwrap().push((i, r));
                }
            });
        }
    });
    let mut rs = results.into_inner().unwrap();
    rs.sort_by_key(|(i, _)| *i);
    for (_, r) in rs {
        rep.merge(r);
    }
}
