//! Engine A: event-schedule explorer over the real services under virtual time.
//!
//! A node is an action history; it is executed by building a fresh world and replaying the
//! history (stateless re-execution).  Level-synchronous BFS with canonical-fingerprint
//! deduplication; every state also gets an epilogue (drain + probe).

use crate::evidence::{Report, Violation};
use crate::inner::{Mode, Out};
use crate::world::{Phase, PollResult, World};
use serde_json::{json, Value};
use std::collections::{BTreeMap, BTreeSet, HashMap, HashSet};
use std::sync::atomic::{AtomicBool, AtomicUsize, Ordering};
use std::sync::Mutex;
use std::time::{Duration, Instant};

#[derive(Clone, Debug, PartialEq, Eq, Hash, PartialOrd, Ord)]
pub enum Action {
    /// caller, request variant
    Arrive(u8, u8),
    Poll(u8),
    Drop(u8),
    Complete(u8, Out),
    Tick,
    /// scenario-specific control action
    Ctl(u8),
}

impl Action {
    pub fn enc(&self) -> String {
        match self {
            Action::Arrive(c, v) => format!("A{c}:{v}"),
            Action::Poll(c) => format!("P{c}"),
            Action::Drop(c) => format!("D{c}"),
            Action::Complete(k, Out::Ok) => format!("C{k}:ok"),
            Action::Complete(k, Out::Err(e)) => format!("C{k}:e{e}"),
            Action::Complete(k, Out::Panic) => format!("C{k}:panic"),
            Action::Tick => "T".into(),
            Action::Ctl(x) => format!("X{x}"),
        }
    }
    pub fn dec(s: &str) -> Option<Action> {
        let (h, rest) = s.split_at(1);
        match h {
            "T" => Some(Action::Tick),
            "P" => rest.parse().ok().map(Action::Poll),
            "D" => rest.parse().ok().map(Action::Drop),
            "X" => rest.parse().ok().map(Action::Ctl),
            "A" => {
                let (c, v) = rest.split_once(':')?;
                Some(Action::Arrive(c.parse().ok()?, v.parse().ok()?))
            }
            "C" => {
                let (k, o) = rest.split_once(':')?;
                let out = if o == "ok" {
                    Out::Ok
                } else if o == "panic" {
                    Out::Panic
                } else {
                    Out::Err(o.strip_prefix('e')?.parse().ok()?)
                };
                Some(Action::Complete(k.parse().ok()?, out))
            }
            _ => None,
        }
    }
}

pub fn enc_hist(h: &[Action]) -> Value {
    json!(h.iter().map(|a| a.enc()).collect::<Vec<_>>())
}

pub fn dec_hist(v: &Value) -> Option<Vec<Action>> {
    v.as_array()?.iter().map(|s| Action::dec(s.as_str()?)).collect()
}

#[derive(Default, Clone, Debug)]
pub struct Counts {
    pub arrives: usize,
    pub polls: usize,
    pub drops: usize,
    pub completes: usize,
    pub errs: usize,
    pub panics: usize,
    pub ticks: usize,
    pub ctls: usize,
}

impl Counts {
    pub fn of(h: &[Action]) -> Counts {
        let mut c = Counts::default();
        for a in h {
            match a {
                Action::Arrive(..) => c.arrives += 1,
                Action::Poll(_) => c.polls += 1,
                Action::Drop(_) => c.drops += 1,
                Action::Complete(_, o) => {
                    c.completes += 1;
                    match o {
                        Out::Err(_) => c.errs += 1,
                        Out::Panic => c.panics += 1,
                        Out::Ok => {}
                    }
                }
                Action::Tick => c.ticks += 1,
                Action::Ctl(_) => c.ctls += 1,
            }
        }
        c
    }
}

/// A violation found by a scenario oracle.
#[derive(Clone, Debug)]
pub struct Viol {
    pub kind: String,
    pub site: String,
    pub detail: String,
}

impl Viol {
    pub fn new(kind: &str, site: &str, detail: impl Into<String>) -> Viol {
        Viol { kind: kind.into(), site: site.into(), detail: detail.into() }
    }
}

pub trait Scenario: Sync + Send {
    /// scenario-specific part of the world (service handle, oracle state)
    type X;
    fn property(&self) -> &'static str;
    fn label(&self) -> String;
    fn callers(&self) -> usize;
    fn grid_ms(&self) -> u64 {
        10
    }
    fn mode(&self) -> Mode {
        Mode::Gated
    }
    fn rng_seed(&self) -> u64 {
        1
    }
    /// build the service under test; may run a prelude
    fn init(&self, w: &mut World) -> Self::X;
    /// request variants the next arriving caller may choose from
    fn arrive_variants(&self, _w: &World, _x: &Self::X, _c: usize) -> Vec<u8> {
        vec![0]
    }
    /// perform the arrival of caller c (clone, poll_ready, call) and register its future
    fn arrive(&self, w: &mut World, x: &mut Self::X, c: usize, variant: u8);
    fn outs(&self) -> Vec<Out> {
        vec![Out::Ok, Out::Err(0)]
    }
    fn ctl_actions(&self, _w: &World, _x: &Self::X) -> Vec<u8> {
        vec![]
    }
    fn apply_ctl(&self, _w: &mut World, _x: &mut Self::X, _ctl: u8) {}
    /// bounds: may action `a` be taken after history `h`?
    fn allow(&self, w: &World, x: &Self::X, h: &[Action], a: &Action) -> bool;
    /// scenario introspection added to the canonical fingerprint
    fn fingerprint(&self, _w: &World, _x: &Self::X) -> String {
        String::new()
    }
    /// called before every action (snapshot for "what happened during this action" oracles)
    fn before(&self, _w: &World, _x: &mut Self::X, _a: &Action) {}
    /// step oracle, called after every action
    fn after(&self, w: &mut World, x: &mut Self::X, a: &Action, out: &mut Vec<Viol>);
    /// epilogue from this state (drain + probe); returns an observation signature
    fn epilogue(&self, w: &mut World, x: &mut Self::X, out: &mut Vec<Viol>) -> String;
    /// situations that make the scenario meaningful, observed in this state
    fn witnesses(&self, _w: &World, _x: &Self::X, _h: &[Action]) -> Vec<&'static str> {
        vec![]
    }
    /// whether Drop actions exist
    fn drops_enabled(&self) -> bool {
        true
    }
    fn ticks_enabled(&self) -> bool {
        true
    }
    /// keep resolved futures alive until an explicit Drop (release) action
    fn retain_completed(&self) -> bool {
        false
    }
    /// deviation budget: how many ticks may be taken although a woken caller has not been
    /// polled yet (a late executor); 0 = the prompt-executor rule holds without exception
    fn late_ticks(&self) -> usize {
        0
    }
}

/// Canonical, harness-visible facts about the world.
pub fn core_fingerprint(w: &World) -> String {
    use std::fmt::Write;
    let now = w.now_ms();
    let mut s = String::new();
    let _ = write!(s, "t{now}|");
    if w.starve_next_poll {
        // (an armed budget-starved poll is state: the next poll behaves differently)
        let _ = write!(s, "starve|");
    }
    // tasks alive on the runtime: a task that a dropped call left behind (detached, not
    // cancelled) is state that no caller shows any more
    let tasks = w.alive_tasks();
    if tasks > 0 {
        let _ = write!(s, "tasks{tasks}|");
    }
    // rank of first poll among live callers (FIFO queues of tokio's semaphore / mutex)
    let mut order: Vec<(u64, usize)> = w
        .callers
        .iter()
        .enumerate()
        .filter(|(_, c)| c.is_live() && c.first_poll_seq.is_some())
        .map(|(i, c)| (c.first_poll_seq.unwrap(), i))
        .collect();
    order.sort();
    let rank: HashMap<usize, usize> = order.iter().enumerate().map(|(r, (_, i))| (*i, r)).collect();
    for (i, c) in w.callers.iter().enumerate() {
        match &c.phase {
            Phase::NotArrived => s.push('n'),
            Phase::Live => {
                let _ = write!(
                    s,
                    "L(r{:?},f{},p{},fp{:?},np{})",
                    rank.get(&i),
                    c.flag_set() as u8,
                    (c.polls > 0) as u8,
                    c.first_poll_ms,
                    w.needs_poll(i) as u8
                );
                // a call future that has not been polled yet may hold what call() sampled when
                // it was made (only a late executor lets time pass in between)
                if c.polls == 0 && c.arrived_ms != Some(now) {
                    let _ = write!(s, "a{:?}", c.arrived_ms);
                }
            }
            Phase::Done(o) => {
                let _ = write!(s, "D({}){}", o.tag(), if c.fut.is_some() { "+fut" } else { "" });
            }
            Phase::Panicked => s.push('X'),
            Phase::Dropped => s.push('d'),
        }
        if let Some(r) = &c.req {
            let _ = write!(s, "k{}", r.key);
        }
        s.push(';');
    }
    s.push('|');
    let g = w.inner.lock().unwrap();
    for k in g.calls.iter() {
        use crate::inner::CallStatus as CS;
        // owner: the caller whose request id this call carries
        let _ = write!(s, "c{}r{}:", k.k, k.req.id);
        match &k.status {
            CS::Pending => {
                let _ = write!(s, "p{}g{:?}@{}", k.polled as u8, k.gate, k.start_ms);
            }
            CS::Ok(_) => s.push_str("ok"),
            CS::Err(e) => {
                let _ = write!(s, "e{}", e.kind);
            }
            CS::Panicked => s.push('X'),
            CS::Dropped => s.push('d'),
        }
        // A finished inner call whose caller is still unresolved (a failed attempt of a retry,
        // hedge or reconnect in progress) keeps its instants: both the service's timers and the
        // oracles' spacing clauses ("no earlier than the delay after the previous attempt")
        // depend on them, so two histories that differ there have different futures.
        if k.status != CS::Pending && w.callers.iter().any(|c| c.is_live() && c.req.as_ref().map(|r| r.id) == Some(k.req.id)) {
            let _ = write!(s, "@{}-{:?}", k.start_ms, k.end_ms);
        }
        s.push(';');
    }
    s
}

pub struct Exec {
    pub fingerprint: String,
    pub enabled: Vec<Action>,
    pub viols: Vec<Viol>,
    pub witnesses: Vec<&'static str>,
    pub epilogue_sig: String,
    pub outcome_sig: String,
    pub log: Vec<String>,
    pub divergence: Option<String>,
}

pub fn enabled_actions<S: Scenario>(scn: &S, w: &World, x: &S::X, h: &[Action]) -> Vec<Action> {
    let mut v = vec![];
    // arrivals: only the lowest-numbered caller that has not arrived (symmetry reduction)
    if let Some(c) = w.callers.iter().position(|c| c.phase == Phase::NotArrived) {
        if c < scn.callers() {
            for var in scn.arrive_variants(w, x, c) {
                v.push(Action::Arrive(c as u8, var));
            }
        }
    }
    for c in 0..w.callers.len().min(scn.callers()) {
        if w.pollable(c) {
            v.push(Action::Poll(c as u8));
        }
    }
    if scn.drops_enabled() {
        for c in 0..w.callers.len().min(scn.callers()) {
            if w.callers[c].is_live() || w.has_retained(c) {
                v.push(Action::Drop(c as u8));
            }
        }
    }
    if let Mode::Gated = scn.mode() {
        let gateable = w.inner.lock().unwrap().gateable();
        for k in gateable {
            for o in scn.outs() {
                v.push(Action::Complete(k as u8, o));
            }
        }
    }
    // prompt-executor rule: time does not pass while a woken caller is unpolled
    if scn.ticks_enabled() && (!w.any_needs_poll() || w.late_ticks < scn.late_ticks()) {
        v.push(Action::Tick);
    }
    for c in scn.ctl_actions(w, x) {
        v.push(Action::Ctl(c));
    }
    v.retain(|a| scn.allow(w, x, h, a));
    v
}

pub fn apply_action<S: Scenario>(scn: &S, w: &mut World, x: &mut S::X, a: &Action) -> Result<(), String> {
    // poll / drop / complete / tick open a new step themselves
    if matches!(a, Action::Arrive(..) | Action::Ctl(_)) {
        w.begin_step();
    }
    match a {
        Action::Arrive(c, var) => {
            let c = *c as usize;
            if c >= w.callers.len() || w.callers[c].phase != Phase::NotArrived {
                return Err(format!("Arrive({c}) not enabled"));
            }
            scn.arrive(w, x, c, *var);
        }
        Action::Poll(c) => {
            let c = *c as usize;
            if !w.pollable(c) {
                return Err(format!("Poll({c}) not enabled"));
            }
            let _: PollResult = w.poll_caller(c);
        }
        Action::Drop(c) => {
            let c = *c as usize;
            if w.has_retained(c) {
                w.release_done(c);
            } else {
                if !w.callers[c].is_live() {
                    return Err(format!("Drop({c}) not enabled"));
                }
                w.drop_caller(c);
            }
        }
        Action::Complete(k, o) => {
            let k = *k as usize;
            if !w.inner.lock().unwrap().gateable().contains(&k) {
                return Err(format!("Complete({k}) not enabled"));
            }
            w.complete(k, *o);
        }
        Action::Tick => {
            if w.any_needs_poll() {
                if w.late_ticks >= scn.late_ticks() {
                    return Err("Tick not enabled".into());
                }
                w.late_ticks += 1;
            }
            w.tick();
        }
        Action::Ctl(c) => scn.apply_ctl(w, x, *c),
    }
    Ok(())
}

/// Generic oracle for every scenario: a call through the service under test may panic only
/// when one of its own inner calls was scripted to panic.
pub fn unexpected_panics(w: &World, out: &mut Vec<Viol>) {
    for (c, cl) in w.callers.iter().enumerate() {
        if cl.phase != Phase::Panicked {
            continue;
        }
        let Some(req) = &cl.req else { continue };
        let g = w.inner.lock().unwrap();
        let scripted = g.calls.iter().any(|k| k.req.id == req.id && (k.gate == Some(Out::Panic) || k.status == crate::inner::CallStatus::Panicked));
        if !scripted {
            out.push(Viol::new("unexpected_panic", "call_future", format!("the call of caller {c} panicked although none of its inner calls panicked")));
        }
    }
}

/// Execute one history from scratch.
pub fn execute<S: Scenario>(scn: &S, h: &[Action], trace: bool, run_epilogue: &dyn Fn(&str) -> bool) -> Exec {
    let mut w = World::new(scn.callers(), scn.grid_ms(), scn.mode(), scn.rng_seed());
    w.trace = trace;
    w.retain_done = scn.retain_completed();
    let mut x = scn.init(&mut w);
    let mut viols = vec![];
    let mut divergence = None;
    for (i, a) in h.iter().enumerate() {
        // replay guard: the action must be enabled in the replayed prefix
        let en = enabled_actions(scn, &w, &x, &h[..i]);
        if !en.contains(a) {
            divergence = Some(format!("action {} ({}) not enabled while replaying (enabled: {:?})", i, a.enc(), en.iter().map(|a| a.enc()).collect::<Vec<_>>()));
            break;
        }
        scn.before(&w, &mut x, a);
        if let Err(e) = apply_action(scn, &mut w, &mut x, a) {
            divergence = Some(e);
            break;
        }
        scn.after(&mut w, &mut x, a, &mut viols);
        unexpected_panics(&w, &mut viols);
    }
    let mut fp = core_fingerprint(&w);
    fp.push('#');
    fp.push_str(&scn.fingerprint(&w, &x));
    // the bounds are deviation budgets consumed along the history: two histories reaching the
    // same world with different budgets left have different futures, so the budgets are state
    let c = Counts::of(h);
    fp.push_str(&format!("#b{},{},{},{},{}", c.ticks, c.drops, c.panics, c.ctls, w.late_ticks));
    let enabled = if divergence.is_none() { enabled_actions(scn, &w, &x, h) } else { vec![] };
    let witnesses = scn.witnesses(&w, &x, h);
    let outcome_sig = w
        .callers
        .iter()
        .map(|c| match &c.phase {
            Phase::Done(o) => o.tag(),
            Phase::Panicked => "panic".into(),
            Phase::Dropped => "dropped".into(),
            Phase::Live => "live".into(),
            Phase::NotArrived => "-".into(),
        })
        .collect::<Vec<_>>()
        .join(",");
    let mut epilogue_sig = String::new();
    if divergence.is_none() && viols.is_empty() && run_epilogue(&fp) {
        epilogue_sig = scn.epilogue(&mut w, &mut x, &mut viols);
    }
    let log = w.log.iter().map(|(t, s)| format!("{t:>5}ms {s}")).collect();
    Exec { fingerprint: fp, enabled, viols, witnesses, epilogue_sig, outcome_sig, log, divergence }
}

pub struct Opts {
    pub max_depth: usize,
    pub threads: usize,
    pub state_cap: usize,
    pub time_cap: Duration,
    pub dedup: bool,
    /// record, per fingerprint, the set of (enabled, epilogue) signatures (abstraction validation)
    pub record_futures: bool,
}

impl Default for Opts {
    fn default() -> Self {
        Opts {
            max_depth: 10,
            threads: std::thread::available_parallelism().map(|n| n.get()).unwrap_or(8),
            state_cap: 2_000_000,
            time_cap: Duration::from_secs(600),
            dedup: true,
            record_futures: false,
        }
    }
}

#[derive(Default)]
pub struct Explored {
    pub states: u64,
    pub transitions: u64,
    pub executions: u64,
    pub depth_completed: usize,
    pub capped: Option<String>,
    pub fingerprints: HashSet<u64>,
    pub futures: HashMap<u64, BTreeSet<String>>,
    pub level_sizes: Vec<usize>,
}

fn h64(s: &str) -> u64 {
    crate::evidence::fxhash(s.as_bytes())
}

struct Child {
    hist: Vec<Action>,
    fp: u64,
    enabled: Vec<Action>,
}

/// Breadth-first exploration of `scn`; results are merged into `rep`.
pub fn explore<S: Scenario>(scn: &S, opts: &Opts, rep: &mut Report) -> Explored {
    let start = Instant::now();
    let mut ex = Explored::default();
    let seen: Mutex<HashSet<u64>> = Mutex::new(HashSet::new());
    let label = scn.label();

    // root
    let root = match std::panic::catch_unwind(std::panic::AssertUnwindSafe(|| execute(scn, &[], false, &|_| true))) {
        Ok(e) => e,
        Err(p) => {
            let msg = p.downcast_ref::<String>().cloned().or_else(|| p.downcast_ref::<&str>().map(|s| s.to_string())).unwrap_or_default();
            eprintln!("MACHINERY {}: the harness panicked outside any poll while executing the empty history: {}", scn.label(), msg);
            std::process::exit(2);
        }
    };
    ex.executions += 1;
    absorb(scn, &label, &[], &root, rep);
    let root_fp = h64(&root.fingerprint);
    seen.lock().unwrap().insert(root_fp);
    ex.fingerprints.insert(root_fp);
    ex.states = 1;
    if opts.record_futures {
        ex.futures.entry(root_fp).or_default().insert(format!("{:?}|{}", root.enabled, root.epilogue_sig));
    }
    let mut frontier: Vec<(Vec<Action>, Vec<Action>)> =
        if root.viols.is_empty() && root.divergence.is_none() { vec![(vec![], root.enabled.clone())] } else { vec![] };
    ex.level_sizes.push(1);
    rep.sample(json!({"config": label, "history": enc_hist(&[]), "fingerprint": root.fingerprint}));

    for depth in 1..=opts.max_depth {
        if frontier.is_empty() {
            ex.depth_completed = opts.max_depth;
            break;
        }
        // work items: (parent index)
        let next = AtomicUsize::new(0);
        let stop = AtomicBool::new(false);
        let results: Mutex<Vec<(Child, Exec)>> = Mutex::new(Vec::new());
        let transitions = AtomicUsize::new(0);
        let rechecks = AtomicUsize::new(0);
        let diverged: Mutex<Vec<String>> = Mutex::new(Vec::new());
        let nthreads = opts.threads.max(1).min(frontier.len().max(1));
        std::thread::scope(|sc| {
            for _ in 0..nthreads {
                sc.spawn(|| {
                    crate::quiet_panics();
                    let mut local: Vec<(Child, Exec)> = vec![];
                    loop {
                        if stop.load(Ordering::Relaxed) {
                            break;
                        }
                        let i = next.fetch_add(1, Ordering::Relaxed);
                        if i >= frontier.len() {
                            break;
                        }
                        if start.elapsed() > opts.time_cap {
                            stop.store(true, Ordering::Relaxed);
                            break;
                        }
                        let (parent, parent_enabled) = &frontier[i];
                        for a in parent_enabled.iter() {
                            let mut h = parent.clone();
                            h.push(a.clone());
                            // a panic of the code under test inside a poll is part of the
                            // execution (caught there); one that escapes is the harness failing
                            let e = match std::panic::catch_unwind(std::panic::AssertUnwindSafe(|| {
                                execute(scn, &h, false, &|fp| {
                                    if !opts.dedup {
                                        return true;
                                    }
                                    !seen.lock().unwrap().contains(&h64(fp))
                                })
                            })) {
                                Ok(e) => e,
                                Err(p) => {
                                    let msg = p.downcast_ref::<String>().cloned().or_else(|| p.downcast_ref::<&str>().map(|s| s.to_string())).unwrap_or_default();
                                    eprintln!("MACHINERY {}: the harness panicked outside any poll while executing history {}: {}", scn.label(), enc_hist(&h), msg);
                                    std::process::exit(2);
                                }
                            };
                            let n = transitions.fetch_add(1, Ordering::Relaxed);
                            // determinism guard: a fixed stride of histories is executed twice
                            if n % 401 == 7 {
                                let again = execute(scn, &h, false, &|_| true);
                                rechecks.fetch_add(1, Ordering::Relaxed);
                                if again.fingerprint != e.fingerprint || again.enabled != e.enabled || (!e.epilogue_sig.is_empty() && again.epilogue_sig != e.epilogue_sig) {
                                    let what = if again.fingerprint != e.fingerprint {
                                        format!("fingerprint {} vs {}", e.fingerprint, again.fingerprint)
                                    } else if again.enabled != e.enabled {
                                        "enabled actions".to_string()
                                    } else {
                                        format!("epilogue {} vs {}", e.epilogue_sig, again.epilogue_sig)
                                    };
                                    diverged.lock().unwrap().push(format!("{} [{}]", enc_hist(&h), what));
                                }
                            }
                            let fp = h64(&e.fingerprint);
                            let child = Child { hist: h, fp, enabled: e.enabled.clone() };
                            local.push((child, e));
                        }
                    }
                    results.lock().unwrap().append(&mut local);
                });
            }
        });
        let mut res = results.into_inner().unwrap();
        let t = transitions.load(Ordering::Relaxed) as u64;
        rep.replay_checks += rechecks.load(Ordering::Relaxed) as u64;
        for d in diverged.into_inner().unwrap() {
            rep.replay_divergences += 1;
            if rep.machinery.len() < 5 {
                rep.machinery.push(format!("{label}: two executions of history {d} differ (uncaptured nondeterminism)"));
            }
        }
        ex.transitions += t;
        ex.executions += t;
        if stop.load(Ordering::Relaxed) {
            ex.capped = Some(format!("time cap {:?} hit at depth {}", opts.time_cap, depth));
        }
        // deterministic merge: sort by history
        res.sort_by(|a, b| a.0.hist.cmp(&b.0.hist));
        let mut next_frontier: Vec<(Vec<Action>, Vec<Action>)> = vec![];
        let mut seen_g = seen.lock().unwrap();
        // debugging aid: VERIF_TRACE_HIST="X0,T,A0:0" reports what happens to each prefix
        let traced: Option<Vec<String>> = std::env::var("VERIF_TRACE_HIST").ok().map(|t| t.split(',').map(|x| x.trim().to_string()).collect());
        for (child, e) in res.iter() {
            if let Some(t) = &traced {
                let enc: Vec<String> = child.hist.iter().map(|a| a.enc()).collect();
                if enc.len() <= t.len() && enc[..] == t[..enc.len()] {
                    eprintln!("TRACE {label} {:?}: new={} viols={} enabled={:?} fp={}", enc, !seen_g.contains(&child.fp), e.viols.len(), child.enabled.iter().map(|a| a.enc()).collect::<Vec<_>>(), e.fingerprint);
                }
            }
            absorb(scn, &label, &child.hist, e, rep);
            if opts.record_futures {
                ex.futures.entry(child.fp).or_default().insert(format!("{:?}|{}", child.enabled, e.epilogue_sig));
            }
            let is_new = if opts.dedup { seen_g.insert(child.fp) } else { true };
            if !opts.dedup {
                seen_g.insert(child.fp);
            }
            if is_new {
                ex.fingerprints.insert(child.fp);
                if opts.dedup {
                    ex.states += 1;
                }
                if e.viols.is_empty() && e.divergence.is_none() && !child.enabled.is_empty() {
                    next_frontier.push((child.hist.clone(), child.enabled.clone()));
                }
                if ex.states % 997 == 1 {
                    rep.sample(json!({"config": label, "history": enc_hist(&child.hist), "fingerprint": e.fingerprint}));
                }
            }
        }
        if !opts.dedup {
            ex.states = seen_g.len() as u64;
        }
        drop(seen_g);
        ex.level_sizes.push(next_frontier.len());
        if ex.capped.is_some() {
            break;
        }
        ex.depth_completed = depth;
        if ex.states as usize > opts.state_cap {
            ex.capped = Some(format!("state cap {} hit at depth {}", opts.state_cap, depth));
            break;
        }
        frontier = next_frontier;
    }
    if !frontier.is_empty() && ex.depth_completed >= opts.max_depth {
        // depth bound reached with unexplored successors: bounded, as stated
    }
    rep.states += ex.states;
    rep.transitions += ex.transitions;
    rep.executions += ex.executions;
    if let Some(c) = &ex.capped {
        rep.caps.push(format!("{label}: {c}"));
    }
    rep.configs.push(json!({
        "config": label, "states": ex.states, "transitions": ex.transitions,
        "depth_completed": ex.depth_completed, "max_depth": opts.max_depth,
        "level_sizes": ex.level_sizes, "dedup": opts.dedup, "capped": ex.capped,
    }));
    ex
}

fn absorb<S: Scenario>(scn: &S, label: &str, h: &[Action], e: &Exec, rep: &mut Report) {
    for w in &e.witnesses {
        rep.witness(w, 1);
    }
    rep.outcomes.insert(e.outcome_sig.clone());
    if let Some(d) = &e.divergence {
        rep.replay_divergences += 1;
        rep.machinery.push(format!("{label}: divergence replaying {}: {d}", enc_hist(h)));
    }
    for v in &e.viols {
        // re-run with tracing for the log (and as a determinism check)
        let again = execute(scn, h, true, &|_| true);
        rep.replay_checks += 1;
        let same = again.viols.iter().any(|v2| v2.kind == v.kind && v2.site == v.site);
        if !same {
            rep.replay_divergences += 1;
            rep.machinery.push(format!("{label}: violation {} did not reproduce on replay of {}", v.kind, enc_hist(h)));
            continue;
        }
        rep.violations.push(Violation {
            property: scn.property().to_string(),
            kind: v.kind.clone(),
            site: v.site.clone(),
            config: label.to_string(),
            history: enc_hist(h),
            detail: v.detail.clone(),
            log: again.log,
        });
    }
}

/// Abstraction validation: explore without deduplication to depth d0 and check that all
/// histories mapping to one fingerprint have identical enabled-action sets and identical
/// epilogue observations, and that the deduplicated run reached the same fingerprints.
pub fn validate_abstraction<S: Scenario>(scn: &S, d0: usize, dedup_fps: &HashSet<u64>, dedup_depth: usize, rep: &mut Report) {
    let mut scratch = Report::new(scn.property(), rep.tier, rep.level);
    let opts = Opts { max_depth: d0, dedup: false, record_futures: true, time_cap: Duration::from_secs(900), ..Opts::default() };
    let ex = explore(scn, &opts, &mut scratch);
    let mut bad = 0;
    for (fp, futs) in ex.futures.iter() {
        if futs.len() > 1 {
            bad += 1;
            if bad <= 3 {
                rep.machinery.push(format!(
                    "{}: abstraction mismatch: fingerprint {:016x} has {} distinct futures: {:?}",
                    scn.label(), fp, futs.len(), futs.iter().take(2).collect::<Vec<_>>()
                ));
            }
        }
    }
    let mut missing = 0;
    if dedup_depth >= d0 && ex.capped.is_none() {
        for fp in ex.fingerprints.iter() {
            if !dedup_fps.contains(fp) {
                missing += 1;
            }
        }
        if missing > 0 {
            rep.machinery.push(format!("{}: {} fingerprints reached without dedup are missing from the deduplicated run", scn.label(), missing));
        }
    }
    let e = rep.extra.entry("abstraction_validation".into()).or_insert(json!([]));
    e.as_array_mut().unwrap().push(json!({
        "config": scn.label(), "depth": d0, "histories": ex.transitions + 1,
        "fingerprints": ex.fingerprints.len(), "fingerprints_with_divergent_futures": bad,
        "missing_from_dedup_run": missing, "capped": ex.capped,
    }));
    let _ = BTreeMap::<u8, u8>::new();
}

/// Replay one recorded history (twice) and report whether the recorded violation reproduces.
pub fn replay<S: Scenario>(scn: &S, h: &[Action], kind: &str) -> (bool, Vec<String>) {
    let a = execute(scn, h, true, &|_| true);
    let b = execute(scn, h, true, &|_| true);
    if a.log != b.log || a.fingerprint != b.fingerprint {
        eprintln!("MACHINERY replay divergence: two runs of the same history differ");
        std::process::exit(2);
    }
    if let Some(d) = &a.divergence {
        // both runs agree (checked above), so this is not nondeterminism: on the current tree
        // the recorded history cannot be followed, i.e. the code no longer behaves as it did
        // when the violation was recorded
        println!("replay: the recorded history cannot be followed on the current tree ({d}); the recorded violation does not occur");
        std::process::exit(0);
    }
    let hit = a.viols.iter().any(|v| v.kind == kind || kind.is_empty());
    let mut out = a.log.clone();
    for v in &a.viols {
        out.push(format!("VIOLATED {} site={} : {}", v.kind, v.site, v.detail));
    }
    (hit, out)
}

/// Generic drain used by epilogues: open every gate with Ok, poll everything that is
/// pollable, advance time, until no caller is live.  Returns false if callers are still
/// live after `rounds` rounds (a liveness failure).
pub fn drain(w: &mut World, rounds: usize) -> bool {
    for _ in 0..rounds {
        let gateable = w.inner.lock().unwrap().gateable();
        for k in gateable {
            w.complete(k, Out::Ok);
        }
        // poll until quiescent at this instant (bounded)
        for _ in 0..64 {
            let mut progressed = false;
            for c in 0..w.callers.len() {
                if w.needs_poll(c) {
                    w.poll_caller(c);
                    progressed = true;
                }
            }
            let more = !w.inner.lock().unwrap().gateable().is_empty();
            if more {
                let gateable = w.inner.lock().unwrap().gateable();
                for k in gateable {
                    w.complete(k, Out::Ok);
                }
                progressed = true;
            }
            if !progressed {
                break;
            }
        }
        if w.live_callers().is_empty() {
            return true;
        }
        w.tick();
    }
    w.live_callers().is_empty()
}

/// Replay entry point shared by the engine-A binaries: find the configuration named in
/// the replay file among `candidates`, re-execute the history twice, report.
pub fn replay_main<S: Scenario>(prop: &str, path: &str, candidates: Vec<S>) -> ! {
    let v = crate::load_replay(path);
    let label = v["config"].as_str().unwrap_or("");
    let Some(hist) = dec_hist(&v["history"]) else {
        eprintln!("MACHINERY replay file has no decodable history");
        std::process::exit(2);
    };
    let kind = v["kind"].as_str().unwrap_or("");
    for cfg in candidates {
        if cfg.label() == label {
            let (hit, log) = replay(&cfg, &hist, kind);
            for l in log {
                println!("{l}");
            }
            if hit {
                println!("VIOLATION property={prop} replay={path}");
                std::process::exit(1);
            }
            println!("replay: the recorded violation does not occur on the current tree");
            std::process::exit(0);
        }
    }
    eprintln!("MACHINERY no configuration labelled '{label}'");
    std::process::exit(2);
}
