//! Emulated lock contention: a caller polled from *inside* another caller's poll.
//!
//! Engine A's atomic step is one `Future::poll`. That is complete for shared state that is
//! only touched inside a critical section of an async (tokio) mutex held for the whole
//! check-and-act - but not for a change that splits such a section in two (check under one
//! acquisition, act under the next): on a multi-thread runtime a second caller can get the
//! lock between the two. The single-threaded equivalent of "thread B reaches the lock while
//! thread A is inside the critical section" is a *nested poll*: an event listener of the
//! service under test (listeners run inside the critical section) polls caller B once. B's
//! `lock().await` finds the mutex held, queues and returns Pending - exactly what B's thread
//! would do - and tokio's fair hand-over then gives B the lock before A can take it again.
//!
//! Only sound for async mutexes (a nested poll that needs a *blocking* mutex held by the
//! outer poll would self-deadlock instead of queueing); scenarios opt in per service.

use crate::world::{CallerFut, Outcome, WakeFlag};
use std::future::Future;
use std::panic::{catch_unwind, AssertUnwindSafe};
use std::pin::Pin;
use std::sync::{Arc, Mutex};
use std::task::{Context, Poll, Waker};

type Slot = Arc<Mutex<SlotState>>;

struct SlotState {
    fut: Option<CallerFut>,
    early: Option<Result<Outcome, ()>>,
}

#[derive(Default)]
struct NestInner {
    armed: Option<usize>,
    slots: Vec<Option<(Slot, Arc<WakeFlag>)>>,
    /// (caller polled from inside a hook, it resolved there)
    fired: Vec<(usize, bool)>,
    depth: u32,
}

#[derive(Default)]
pub struct Nest {
    inner: Mutex<NestInner>,
}

// Listener closures must be Send + Sync; the caller futures in the slots are not. Sound here
// because a world, its service, its listeners and its Nest live and die on the one explorer
// thread that created them (stateless re-execution: nothing is shared between executions).
unsafe impl Send for Nest {}
unsafe impl Sync for Nest {}

struct Via {
    slot: Slot,
}

impl Future for Via {
    type Output = Outcome;
    fn poll(self: Pin<&mut Self>, cx: &mut Context<'_>) -> Poll<Outcome> {
        let mut s = self.slot.lock().unwrap();
        if let Some(e) = s.early.take() {
            return match e {
                Ok(o) => Poll::Ready(o),
                Err(()) => panic!("the call panicked when it was polled from inside a listener"),
            };
        }
        match s.fut.as_mut() {
            Some(f) => match f.as_mut().poll(cx) {
                Poll::Ready(o) => {
                    s.fut = None;
                    Poll::Ready(o)
                }
                Poll::Pending => Poll::Pending,
            },
            None => Poll::Pending,
        }
    }
}

/// The world drops a caller by dropping its `Via`: the call's own future, which the slot keeps
/// reachable for hooks, goes with it (taken out first, dropped outside the slot's lock - its
/// Drop may fire a hook itself).
impl Drop for Via {
    fn drop(&mut self) {
        let f = self.slot.lock().ok().and_then(|mut s| s.fut.take());
        drop(f);
    }
}

impl Nest {
    pub fn new() -> Arc<Nest> {
        Arc::new(Nest::default())
    }
    /// Route caller `c`'s future through a slot that a hook can reach; returns the future to
    /// hand to the world.
    pub fn wrap(&self, c: usize, fut: CallerFut, flag: Arc<WakeFlag>) -> CallerFut {
        let slot: Slot = Arc::new(Mutex::new(SlotState { fut: Some(fut), early: None }));
        let mut g = self.inner.lock().unwrap();
        if g.slots.len() <= c {
            g.slots.resize_with(c + 1, || None);
        }
        g.slots[c] = Some((slot.clone(), flag));
        Box::pin(Via { slot })
    }
    /// The next hook firing polls caller `c` once.
    pub fn arm(&self, c: usize) {
        self.inner.lock().unwrap().armed = Some(c);
    }
    pub fn armed(&self) -> Option<usize> {
        self.inner.lock().unwrap().armed
    }
    pub fn fired(&self) -> Vec<(usize, bool)> {
        self.inner.lock().unwrap().fired.clone()
    }
    /// Called by a listener of the service under test.
    pub fn hook(&self) {
        let (c, slot, flag) = {
            let mut g = self.inner.lock().unwrap();
            if g.depth > 0 {
                return;
            }
            let Some(c) = g.armed else { return };
            let Some(Some((slot, flag))) = g.slots.get(c).cloned() else { return };
            g.armed = None;
            g.depth += 1;
            (c, slot, flag)
        };
        let mut resolved = false;
        // the caller being polled right now holds its own slot: it cannot be nested into itself
        if let Ok(mut s) = slot.try_lock() {
            if let Some(f) = s.fut.as_mut() {
                let waker = Waker::from(flag.clone());
                let mut cx = Context::from_waker(&waker);
                match catch_unwind(AssertUnwindSafe(|| f.as_mut().poll(&mut cx))) {
                    Ok(Poll::Pending) => {}
                    Ok(Poll::Ready(o)) => {
                        s.fut = None;
                        s.early = Some(Ok(o));
                        resolved = true;
                    }
                    Err(_) => {
                        s.fut = None;
                        s.early = Some(Err(()));
                        resolved = true;
                    }
                }
            }
        } else {
            // re-arm: the hook fired inside the armed caller's own poll
            let mut g = self.inner.lock().unwrap();
            g.armed = Some(c);
            g.depth -= 1;
            return;
        }
        if resolved {
            // make the world poll the wrapper, which then hands over the stored outcome
            std::task::Wake::wake(flag);
        }
        let mut g = self.inner.lock().unwrap();
        g.depth -= 1;
        g.fired.push((c, resolved));
    }
}
