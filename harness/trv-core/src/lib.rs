//! trv-core: engines and shared machinery of the tower-resilience verification harness.

pub mod clock;
pub mod evidence;
pub mod ilv;
pub mod inner;
pub mod nest;
pub mod seq;
pub mod svcx;
pub mod world;

pub use libc;
pub use serde_json;

use evidence::{Report, Tier};

/// Silence the default panic hook on this thread's process (panics inside the code under
/// test are caught per action and are observations, not crashes).
pub fn quiet_panics() {
    use std::sync::Once;
    static ONCE: Once = Once::new();
    ONCE.call_once(|| {
        observers::install();
        let default = std::panic::take_hook();
        std::panic::set_hook(Box::new(move |info| {
            if std::env::var("TRV_SHOW_PANICS").is_ok() {
                default(info);
            }
        }));
    });
}

pub struct Cli {
    pub property: String,
    pub tier: Tier,
    pub replay: Option<String>,
}

pub fn parse_cli() -> Cli {
    let args: Vec<String> = std::env::args().collect();
    if args.len() < 3 {
        eprintln!("usage: {} <PROPERTY> <quick|thorough|--replay PATH>", args[0]);
        std::process::exit(2);
    }
    let property = args[1].clone();
    if args[2] == "--replay" {
        let path = args.get(3).cloned().unwrap_or_else(|| {
            eprintln!("--replay needs a path");
            std::process::exit(2)
        });
        return Cli { property, tier: Tier::Quick, replay: Some(path) };
    }
    let tier = match args[2].as_str() {
        "quick" => Tier::Quick,
        "thorough" => Tier::Thorough,
        other => {
            eprintln!("unknown tier {other}");
            std::process::exit(2);
        }
    };
    Cli { property, tier, replay: None }
}

/// Common start-up: panic hook + clock-seam self test (exit 2 if the seam is not effective).
pub fn startup() {
    quiet_panics();
    if let Err(e) = clock::self_test() {
        eprintln!("MACHINERY clock seam self-test failed: {e}");
        std::process::exit(2);
    }
}

pub fn load_replay(path: &str) -> serde_json::Value {
    let s = std::fs::read_to_string(path).unwrap_or_else(|e| {
        eprintln!("cannot read replay {path}: {e}");
        std::process::exit(2)
    });
    serde_json::from_str(&s).unwrap_or_else(|e| {
        eprintln!("cannot parse replay {path}: {e}");
        std::process::exit(2)
    })
}

pub fn finish(rep: Report) -> ! {
    let code = rep.finish();
    std::process::exit(code)
}

/// The repository's crates are built with their `tracing` and `metrics` features on. With no
/// subscriber the `tracing` macros do not even evaluate their field expressions, so the harness
/// installs one that is interested in everything and throws every event away; likewise a
/// recorder that hands out no-op metric handles. What they would *show* is not examined - the
/// point is that the code inside those feature blocks really runs.
pub mod observers {
    use std::sync::atomic::{AtomicU64, Ordering};

    struct AllEvents(AtomicU64);

    impl tracing::Subscriber for AllEvents {
        fn enabled(&self, _m: &tracing::Metadata<'_>) -> bool {
            true
        }
        fn new_span(&self, _a: &tracing::span::Attributes<'_>) -> tracing::span::Id {
            tracing::span::Id::from_u64(self.0.fetch_add(1, Ordering::Relaxed) + 1)
        }
        fn record(&self, _s: &tracing::span::Id, _v: &tracing::span::Record<'_>) {}
        fn record_follows_from(&self, _s: &tracing::span::Id, _f: &tracing::span::Id) {}
        fn event(&self, _e: &tracing::Event<'_>) {}
        fn enter(&self, _s: &tracing::span::Id) {}
        fn exit(&self, _s: &tracing::span::Id) {}
    }

    struct NoopRecorder;

    impl metrics::Recorder for NoopRecorder {
        fn describe_counter(&self, _k: metrics::KeyName, _u: Option<metrics::Unit>, _d: metrics::SharedString) {}
        fn describe_gauge(&self, _k: metrics::KeyName, _u: Option<metrics::Unit>, _d: metrics::SharedString) {}
        fn describe_histogram(&self, _k: metrics::KeyName, _u: Option<metrics::Unit>, _d: metrics::SharedString) {}
        fn register_counter(&self, _k: &metrics::Key, _m: &metrics::Metadata<'_>) -> metrics::Counter {
            metrics::Counter::noop()
        }
        fn register_gauge(&self, _k: &metrics::Key, _m: &metrics::Metadata<'_>) -> metrics::Gauge {
            metrics::Gauge::noop()
        }
        fn register_histogram(&self, _k: &metrics::Key, _m: &metrics::Metadata<'_>) -> metrics::Histogram {
            metrics::Histogram::noop()
        }
    }

    pub fn install() {
        let _ = tracing::subscriber::set_global_default(AllEvents(AtomicU64::new(0)));
        let _ = metrics::set_global_recorder(NoopRecorder);
    }
}
