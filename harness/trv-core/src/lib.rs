//! trv-core: engines and shared machinery of the tower-resilience verification harness.

pub mod clock;
pub mod evidence;
pub mod ilv;
pub mod inner;
pub mod nest;
pub mod seq;
pub mod svcx;
pub mod world;

pub use libc;
pub use serde_json;

use evidence::{Report, Tier};

/// Silence the default panic hook on this thread's process (panics inside the code under
/// test are caught per action and are observations, not crashes).
pub fn quiet_panics() {
    use std::sync::Once;
    static ONCE: Once = Once::new();
    ONCE.call_once(|| {
        let default = std::panic::take_hook();
        std::panic::set_hook(Box::new(move |info| {
            if std::env::var("TRV_SHOW_PANICS").is_ok() {
                default(info);
            }
        }));
    });
}

pub struct Cli {
    pub property: String,
    pub tier: Tier,
    pub replay: Option<String>,
}

pub fn parse_cli() -> Cli {
    let args: Vec<String> = std::env::args().collect();
    if args.len() < 3 {
        eprintln!("usage: {} <PROPERTY> <quick|thorough|--replay PATH>", args[0]);
        std::process::exit(2);
    }
    let property = args[1].clone();
    if args[2] == "--replay" {
        let path = args.get(3).cloned().unwrap_or_else(|| {
            eprintln!("--replay needs a path");
            std::process::exit(2)
        });
        return Cli { property, tier: Tier::Quick, replay: Some(path) };
    }
    let tier = match args[2].as_str() {
        "quick" => Tier::Quick,
        "thorough" => Tier::Thorough,
        other => {
            eprintln!("unknown tier {other}");
            std::process::exit(2);
        }
    };
    Cli { property, tier, replay: None }
}

/// Common start-up: panic hook + clock-seam self test (exit 2 if the seam is not effective).
pub fn startup() {
    quiet_panics();
    if let Err(e) = clock::self_test() {
        eprintln!("MACHINERY clock seam self-test failed: {e}");
        std::process::exit(2);
    }
}

pub fn load_replay(path: &str) -> serde_json::Value {
    let s = std::fs::read_to_string(path).unwrap_or_else(|e| {
        eprintln!("cannot read replay {path}: {e}");
        std::process::exit(2)
    });
    serde_json::from_str(&s).unwrap_or_else(|e| {
        eprintln!("cannot parse replay {path}: {e}");
        std::process::exit(2)
    })
}

pub fn finish(rep: Report) -> ! {
    let code = rep.finish();
    std::process::exit(code)
}
