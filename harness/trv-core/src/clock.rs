//! Virtual-clock seam.
//!
//! The harness *binary* defines `clock_gettime` (through `install_clock_seam!()`), so the
//! static linker resolves std's reference to it in preference to libc.so.  For
//! CLOCK_MONOTONIC on a thread whose seam is enabled it returns
//! `BASE + (tokio::time::Instant::now() - origin)`, i.e. tokio's paused clock; otherwise it
//! performs the raw syscall.  No source edit in the repository is needed for virtual time.

use std::cell::Cell;

thread_local! {
    static ENABLED: Cell<bool> = const { Cell::new(false) };
    static BUSY: Cell<bool> = const { Cell::new(false) };
    static ORIGIN: Cell<Option<tokio::time::Instant>> = const { Cell::new(None) };
    static CALLS: Cell<u64> = const { Cell::new(0) };
    static DRIFT: Cell<bool> = const { Cell::new(false) };
    static LAST: Cell<(u64, u32)> = const { Cell::new((u64::MAX, 0)) };
    static READS: Cell<u32> = const { Cell::new(0) };
    static SHARED: Cell<bool> = const { Cell::new(false) };
    static SKEW: Cell<std::time::Duration> = const { Cell::new(std::time::Duration::ZERO) };
}

/// Time that passes *inside* a poll: synchronous code under test that takes a while (a slow
/// event listener) is modelled by the harness-side callback calling this; every later read
/// of the monotonic clock on this thread is that much further on. (tokio's own paused clock
/// is not moved: timers fire by virtual time as before.) Reset by `enable`.
pub fn add_skew(d: std::time::Duration) {
    SKEW.with(|s| s.set(s.get().saturating_add(d)));
}

/// Time that passes inside a poll, for code running inside the world's (paused) tokio
/// runtime: moves tokio's virtual clock - and with it the seam - by `d`, as a blocking piece
/// of synchronous code (a slow listener) does. Timers that become due are only noticed once
/// the poll has returned, exactly as on a blocked thread. (`tokio::time::advance` moves the
/// clock in its first poll and then yields; it is polled once and dropped.)
pub fn burn(d: std::time::Duration) {
    use std::future::Future;
    struct N;
    impl std::task::Wake for N {
        fn wake(self: std::sync::Arc<Self>) {}
    }
    let waker = std::task::Waker::from(std::sync::Arc::new(N));
    let mut cx = std::task::Context::from_waker(&waker);
    let mut f = Box::pin(tokio::time::advance(d));
    let _ = f.as_mut().poll(&mut cx);
}

pub fn skew() -> std::time::Duration {
    SKEW.with(|s| s.get())
}

/// A clock shared by several OS threads (engine B runs service calls on real threads, outside
/// any runtime): threads that call `shared_enable` read `BASE + SHARED_NANOS`, which the
/// harness sets. Lets a thread-level scenario age a TTL deterministically.
static SHARED_NANOS: std::sync::atomic::AtomicU64 = std::sync::atomic::AtomicU64::new(0);

pub fn shared_enable() {
    SHARED.with(|s| s.set(true));
}

pub fn shared_disable() {
    SHARED.with(|s| s.set(false));
}

pub fn shared_set_ms(ms: u64) {
    SHARED_NANOS.store(ms * 1_000_000, std::sync::atomic::Ordering::SeqCst);
}

/// Drifting mode: within one virtual instant every further read of the clock returns one
/// nanosecond more than the previous one (capped well below a millisecond), as a real clock
/// does between two reads inside one poll. Off by default: oracles that judge exact window
/// boundaries presuppose a clock that stands still within a poll.
pub fn set_drift(on: bool) {
    DRIFT.with(|d| d.set(on));
    LAST.with(|l| l.set((u64::MAX, 0)));
    READS.with(|r| r.set(0));
}

/// Arbitrary fixed base so that `Instant` arithmetic never underflows.
pub const BASE_SECS: i64 = 1_000_000;

pub fn enable(origin: tokio::time::Instant) {
    SKEW.with(|s| s.set(std::time::Duration::ZERO));
    ORIGIN.with(|o| o.set(Some(origin)));
    ENABLED.with(|e| e.set(true));
}

pub fn disable() {
    ENABLED.with(|e| e.set(false));
    ORIGIN.with(|o| o.set(None));
}

pub fn seam_calls() -> u64 {
    CALLS.with(|c| c.get())
}

/// Called by the `clock_gettime` definition in the binary.
///
/// # Safety
/// `tp` must be a valid pointer to a `timespec`.
pub unsafe fn clock_gettime_impl(clk: libc::clockid_t, tp: *mut libc::timespec) -> libc::c_int {
    if clk == libc::CLOCK_MONOTONIC && SHARED.try_with(|s| s.get()).unwrap_or(false) {
        let n = SHARED_NANOS.load(std::sync::atomic::Ordering::SeqCst);
        (*tp).tv_sec = BASE_SECS + (n / 1_000_000_000) as i64;
        (*tp).tv_nsec = (n % 1_000_000_000) as i64;
        return 0;
    }
    let virt = clk == libc::CLOCK_MONOTONIC
        && ENABLED.try_with(|e| e.get()).unwrap_or(false)
        && !BUSY.try_with(|b| b.get()).unwrap_or(true);
    if virt {
        BUSY.with(|b| b.set(true));
        let origin = ORIGIN.with(|o| o.get());
        let r = origin.map(|o| tokio::time::Instant::now().saturating_duration_since(o));
        BUSY.with(|b| b.set(false));
        if let Some(mut d) = r {
            CALLS.with(|c| c.set(c.get() + 1));
            d = d.saturating_add(SKEW.with(|s| s.get()));
            if DRIFT.with(|x| x.get()) {
                let key = (d.as_secs(), d.subsec_nanos());
                let k = if LAST.with(|l| l.get()) == key {
                    READS.with(|r| {
                        r.set((r.get() + 1).min(900_000));
                        r.get()
                    })
                } else {
                    LAST.with(|l| l.set(key));
                    READS.with(|r| r.set(0));
                    0
                };
                d += std::time::Duration::from_nanos(k as u64);
            }
            (*tp).tv_sec = BASE_SECS + d.as_secs() as i64;
            (*tp).tv_nsec = d.subsec_nanos() as i64;
            return 0;
        }
    }
    libc::syscall(libc::SYS_clock_gettime, clk as libc::c_long, tp) as libc::c_int
}

/// Defines the `clock_gettime` symbol in the invoking (binary) crate.
#[macro_export]
macro_rules! install_clock_seam {
    () => {
        #[no_mangle]
        pub unsafe extern "C" fn clock_gettime(
            clk: $crate::libc::clockid_t,
            tp: *mut $crate::libc::timespec,
        ) -> $crate::libc::c_int {
            $crate::clock::clock_gettime_impl(clk, tp)
        }
    };
}

/// Start-up self test: std's Instant must follow tokio's paused clock exactly.
pub fn self_test() -> Result<(), String> {
    let rt = tokio::runtime::Builder::new_current_thread()
        .enable_time()
        .start_paused(true)
        .build()
        .map_err(|e| e.to_string())?;
    let res = rt.block_on(async {
        let origin = tokio::time::Instant::now();
        enable(origin);
        let a = std::time::Instant::now();
        tokio::time::advance(std::time::Duration::from_secs(1)).await;
        let b = std::time::Instant::now();
        let c = std::time::Instant::now();
        tokio::time::sleep(std::time::Duration::from_millis(25)).await;
        let d = std::time::Instant::now();
        disable();
        let real0 = std::time::Instant::now();
        let real1 = std::time::Instant::now();
        (b - a, c - b, d - c, real1 >= real0)
    });
    if res.0 != std::time::Duration::from_secs(1)
        || res.1 != std::time::Duration::ZERO
        || res.2 != std::time::Duration::from_millis(25)
        || !res.3
    {
        return Err(format!("clock seam not effective: {:?}", res));
    }
    Ok(())
}
