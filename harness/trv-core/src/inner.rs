//! Instrumented inner service: every `poll_ready`/`call` is logged, every returned future
//! waits on a harness gate (or a scripted plan) and logs completion / drop / panic.

use std::collections::VecDeque;
use std::fmt;
use std::future::Future;
use std::pin::Pin;
use std::sync::{Arc, Mutex};
use std::task::{Context, Poll, Waker};
use std::time::Duration;

/// A key type whose `Hash` is deliberately weak (all small keys collide) while `Eq` tells
/// them apart - within the Hash/Eq contract. Keyed layers (coalesce, cache) are driven with
/// it so that "unequal keys never get each other's entry" does not rest on hash values.
#[derive(Clone, Copy, Debug, PartialEq, Eq, PartialOrd, Ord)]
pub struct WeakKey(pub u8);

impl std::hash::Hash for WeakKey {
    fn hash<H: std::hash::Hasher>(&self, state: &mut H) {
        state.write_u8(self.0 / 8);
    }
}

#[derive(Clone, Debug, PartialEq, Eq, Hash, PartialOrd, Ord)]
pub struct Req {
    pub id: u32,
    pub key: u8,
}

impl Req {
    pub fn new(id: u32, key: u8) -> Self {
        Req { id, key }
    }
}

#[derive(Clone, Debug, PartialEq, Eq, Hash, PartialOrd, Ord)]
pub struct Resp {
    /// fresh for every inner call, so stale / crossed / duplicated values are visible
    pub serial: u32,
    /// id of the request the inner service saw
    pub req: u32,
    /// key of the request the inner service saw
    pub key: u8,
}

#[derive(Clone, Debug, PartialEq, Eq, Hash, PartialOrd, Ord)]
pub struct InnerErr {
    /// fresh for every inner call (shares the serial counter)
    pub id: u32,
    pub kind: u8,
}

impl fmt::Display for InnerErr {
    fn fmt(&self, f: &mut fmt::Formatter<'_>) -> fmt::Result {
        write!(f, "inner error #{} kind {}", self.id, self.kind)
    }
}
/// Errors of kind 1 ("another kind of error") carry a cause, as an application-level error
/// wrapping a transport error does: the cause reads like an error of kind 0. Code that
/// classifies an error must look at the error it was given, not at what caused it.
static CAUSE_OF_KIND_1: InnerErr = InnerErr { id: 0, kind: 0 };

impl std::error::Error for InnerErr {
    fn source(&self) -> Option<&(dyn std::error::Error + 'static)> {
        if self.kind == 1 {
            Some(&CAUSE_OF_KIND_1)
        } else {
            None
        }
    }
}

/// Scripted outcome of an inner call.
#[derive(Clone, Copy, Debug, PartialEq, Eq, Hash, PartialOrd, Ord)]
pub enum Out {
    Ok,
    /// error of the given kind (0 = ordinary / retryable, others scenario-defined)
    Err(u8),
    Panic,
}

#[derive(Clone, Debug, PartialEq, Eq)]
pub enum CallStatus {
    Pending,
    Ok(Resp),
    Err(InnerErr),
    Panicked,
    Dropped,
}

#[derive(Clone, Copy, Debug, PartialEq, Eq)]
pub enum ReadyAns {
    Ready,
    Pending,
    Err(u8),
}

#[derive(Clone, Copy, Debug)]
pub struct Plan {
    pub latency_ms: u64,
    pub out: Out,
    /// never completes (latency ignored)
    pub never: bool,
}

impl Plan {
    pub fn now(out: Out) -> Plan {
        Plan { latency_ms: 0, out, never: false }
    }
    pub fn after(latency_ms: u64, out: Out) -> Plan {
        Plan { latency_ms, out, never: false }
    }
    pub fn never() -> Plan {
        Plan { latency_ms: 0, out: Out::Ok, never: true }
    }
}

#[derive(Clone, Debug)]
pub enum Mode {
    /// calls wait until the harness opens their gate
    Gated,
    /// calls follow the next plan of the script; `default` when the script is exhausted
    Script,
}

pub struct CallRec {
    pub k: usize,
    pub instance: u32,
    pub req: Req,
    pub start_ms: u64,
    pub start_step: usize,
    pub end_ms: Option<u64>,
    pub end_step: Option<usize>,
    pub status: CallStatus,
    /// the instance had returned Ready from poll_ready since its previous call
    pub ready_ok: bool,
    pub polled: bool,
    pub gate: Option<Out>,
    pub gate_ms: Option<u64>,
    waker: Option<Waker>,
}

pub struct InnerState {
    pub origin: tokio::time::Instant,
    pub step: usize,
    pub calls: Vec<CallRec>,
    pub next_serial: u32,
    pub next_instance: u32,
    pub mode: Mode,
    pub script: VecDeque<Plan>,
    pub default_plan: Plan,
    pub ready_script: VecDeque<ReadyAns>,
    /// (instance, ms, answer)
    pub ready_log: Vec<(u32, u64, ReadyAns)>,
    /// (parent, child)
    pub clones: Vec<(u32, u32)>,
    pub contract_violations: Vec<String>,
    /// invoked (outside the lock) with the call index at the start of every call()
    pub on_call: Option<Arc<dyn Fn(usize) + Send + Sync>>,
    /// When set, an instance whose readiness is first asked for after some call has already
    /// been made (a hedge / retry clone) stays Pending until the harness releases it.
    pub hold_late_ready: bool,
    pub held: Vec<HeldReady>,
    /// indices of inner calls that panic synchronously inside `call()` (before any future
    /// exists); such a call is logged as started and panicked at once
    pub sync_panic_calls: Vec<usize>,
    /// an inner call that never waits: while its result is not there yet every poll does ready
    /// tokio operations until the task's cooperative budget is used up (as a future draining
    /// a channel that always has another item does), and only then returns Pending
    pub busy: bool,
    /// scripted latencies are spent inside `call()` itself (synchronous work before the future
    /// is returned - Tower allows it) instead of inside the returned future; see clock::burn
    pub latency_inside_call: bool,
    /// an instance that has answered Ready and is asked again before it was called answers with
    /// an error (Tower allows it: readiness is a reservation that is consumed by `call`)
    pub second_ready_check_fails: bool,
    /// readiness belongs to the instance: a clone taken from an instance that is ready (and has
    /// not been called since) needs this many milliseconds from its own first poll_ready before
    /// it answers Ready (a ConcurrencyLimit-style inner service: the permit sits in the original)
    pub clone_of_ready_needs_ms: Option<u64>,
    /// the largest number of inner calls that were inside the service at the start of a call
    /// (a call whose future is being dropped right now still counts)
    pub peak_live: usize,
    /// called from inside the Drop of a still-pending inner call future, before the call is
    /// marked as dropped (a response future that is slow to drop: whoever is polled from here
    /// finds the call still inside the service)
    pub on_drop: Option<Arc<dyn Fn(usize) + Send + Sync>>,
}

pub struct HeldReady {
    pub instance: u32,
    pub released: bool,
    pub since_ms: u64,
    /// released with a readiness *error* (reported once, on the next poll_ready)
    pub fail: bool,
    pub fail_reported: bool,
    waker: Option<Waker>,
}

impl InnerState {
    pub fn now_ms(&self) -> u64 {
        tokio::time::Instant::now().saturating_duration_since(self.origin).as_millis() as u64
    }
    pub fn live(&self) -> usize {
        self.calls.iter().filter(|c| c.status == CallStatus::Pending).count()
    }
    pub fn live_ids(&self) -> Vec<usize> {
        self.calls.iter().filter(|c| c.status == CallStatus::Pending).map(|c| c.k).collect()
    }
    pub fn gateable(&self) -> Vec<usize> {
        self.calls
            .iter()
            .filter(|c| c.status == CallStatus::Pending && c.gate.is_none())
            .map(|c| c.k)
            .collect()
    }
    fn fresh_serial(&mut self) -> u32 {
        self.next_serial += 1;
        self.next_serial
    }
    pub fn held_unreleased(&self) -> Vec<usize> {
        self.held.iter().enumerate().filter(|(_, h)| !h.released).map(|(i, _)| i).collect()
    }
    /// Let held instance #idx become ready; returns the waker to call (outside the lock).
    pub fn release_ready(&mut self, idx: usize) -> Option<Waker> {
        let h = &mut self.held[idx];
        h.released = true;
        h.waker.take()
    }
    /// The held instance #idx answers its next poll_ready with an error.
    pub fn release_ready_err(&mut self, idx: usize) -> Option<Waker> {
        let h = &mut self.held[idx];
        h.released = true;
        h.fail = true;
        h.waker.take()
    }
    pub fn held_failed(&self) -> usize {
        self.held.iter().filter(|h| h.fail_reported).count()
    }
    /// Open the gate of call k; returns the waker to call (outside the lock).
    pub fn open_gate(&mut self, k: usize, out: Out) -> Option<Waker> {
        let now = self.now_ms();
        let c = &mut self.calls[k];
        c.gate = Some(out);
        c.gate_ms = Some(now);
        c.waker.take()
    }
}

pub type Shared = Arc<Mutex<InnerState>>;

pub fn new_shared(origin: tokio::time::Instant, mode: Mode) -> Shared {
    Arc::new(Mutex::new(InnerState {
        origin,
        step: 0,
        calls: Vec::new(),
        next_serial: 0,
        next_instance: 1,
        mode,
        script: VecDeque::new(),
        default_plan: Plan::now(Out::Ok),
        ready_script: VecDeque::new(),
        ready_log: Vec::new(),
        clones: Vec::new(),
        contract_violations: Vec::new(),
        on_call: None,
        hold_late_ready: false,
        held: Vec::new(),
        sync_panic_calls: Vec::new(),
        busy: false,
        latency_inside_call: false,
        second_ready_check_fails: false,
        clone_of_ready_needs_ms: None,
        peak_live: 0,
        on_drop: None,
    }))
}

pub struct GatedInner {
    pub st: Shared,
    pub instance: u32,
    pub ready: bool,
    /// see `InnerState::clone_of_ready_needs_ms`
    slow_ready: Option<u64>,
    ready_sleep: Option<Pin<Box<tokio::time::Sleep>>>,
}

impl GatedInner {
    pub fn new(st: Shared) -> Self {
        GatedInner { st, instance: 0, ready: false, slow_ready: None, ready_sleep: None }
    }
}

impl Clone for GatedInner {
    fn clone(&self) -> Self {
        let mut g = self.st.lock().unwrap();
        let id = g.next_instance;
        g.next_instance += 1;
        g.clones.push((self.instance, id));
        let slow_ready = if self.ready { g.clone_of_ready_needs_ms } else { None };
        GatedInner { st: self.st.clone(), instance: id, ready: false, slow_ready, ready_sleep: None }
    }
}

pub struct GatedFuture {
    st: Shared,
    k: usize,
    sleep: Option<Pin<Box<tokio::time::Sleep>>>,
    never: bool,
    done: bool,
}

impl tower::Service<Req> for GatedInner {
    type Response = Resp;
    type Error = InnerErr;
    type Future = GatedFuture;

    fn poll_ready(&mut self, cx: &mut Context<'_>) -> Poll<Result<(), InnerErr>> {
        if let Some(ms) = self.slow_ready {
            let sleep = self.ready_sleep.get_or_insert_with(|| Box::pin(tokio::time::sleep(std::time::Duration::from_millis(ms))));
            if sleep.as_mut().poll(cx).is_pending() {
                let mut g = self.st.lock().unwrap();
                let now = g.now_ms();
                g.ready_log.push((self.instance, now, ReadyAns::Pending));
                return Poll::Pending;
            }
            self.slow_ready = None;
            self.ready_sleep = None;
        }
        let mut g = self.st.lock().unwrap();
        if g.hold_late_ready {
            let known = g.held.iter().position(|h| h.instance == self.instance);
            let idx = match known {
                Some(i) => Some(i),
                None if !g.calls.is_empty() && !self.ready => {
                    let now = g.now_ms();
                    g.held.push(HeldReady { instance: self.instance, released: false, since_ms: now, fail: false, fail_reported: false, waker: None });
                    Some(g.held.len() - 1)
                }
                None => None,
            };
            if let Some(i) = idx {
                if !g.held[i].released {
                    g.held[i].waker = Some(cx.waker().clone());
                    let now = g.now_ms();
                    g.ready_log.push((self.instance, now, ReadyAns::Pending));
                    return Poll::Pending;
                }
                if g.held[i].fail && !g.held[i].fail_reported {
                    g.held[i].fail_reported = true;
                    let now = g.now_ms();
                    g.ready_log.push((self.instance, now, ReadyAns::Err(5)));
                    let id = g.fresh_serial();
                    return Poll::Ready(Err(InnerErr { id, kind: 5 }));
                }
            }
        }
        if g.second_ready_check_fails && self.ready {
            let now = g.now_ms();
            g.ready_log.push((self.instance, now, ReadyAns::Err(6)));
            let id = g.fresh_serial();
            return Poll::Ready(Err(InnerErr { id, kind: 6 }));
        }
        let ans = g.ready_script.pop_front().unwrap_or(ReadyAns::Ready);
        let now = g.now_ms();
        g.ready_log.push((self.instance, now, ans));
        match ans {
            ReadyAns::Ready => {
                self.ready = true;
                Poll::Ready(Ok(()))
            }
            ReadyAns::Pending => {
                cx.waker().wake_by_ref();
                Poll::Pending
            }
            ReadyAns::Err(kind) => {
                let id = g.fresh_serial();
                Poll::Ready(Err(InnerErr { id, kind }))
            }
        }
    }

    fn call(&mut self, req: Req) -> GatedFuture {
        let mut g = self.st.lock().unwrap();
        let k = g.calls.len();
        let now = g.now_ms();
        let step = g.step;
        if !self.ready {
            g.contract_violations.push(format!(
                "call #{k} (req {}) on instance {} which has not observed readiness since its previous call",
                req.id, self.instance
            ));
        }
        let ready_ok = self.ready;
        self.ready = false;
        let mut rec = CallRec {
            k,
            instance: self.instance,
            req,
            start_ms: now,
            start_step: step,
            end_ms: None,
            end_step: None,
            status: CallStatus::Pending,
            ready_ok,
            polled: false,
            gate: None,
            gate_ms: None,
            waker: None,
        };
        if g.sync_panic_calls.contains(&k) {
            rec.status = CallStatus::Panicked;
            rec.gate = Some(Out::Panic);
            rec.gate_ms = Some(now);
            rec.end_ms = Some(now);
            rec.end_step = Some(step);
            g.calls.push(rec);
            drop(g);
            panic!("inner service panics inside call() on purpose (call #{k})");
        }
        let mut sleep = None;
        let mut never = false;
        let mut burn_ms = 0u64;
        if let Mode::Script = g.mode {
            let plan = g.script.pop_front().unwrap_or(g.default_plan);
            if plan.never {
                never = true;
            } else if plan.latency_ms == 0 {
                rec.gate = Some(plan.out);
                rec.gate_ms = Some(now);
            } else if g.latency_inside_call {
                rec.gate = Some(plan.out);
                burn_ms = plan.latency_ms;
            } else {
                rec.gate = Some(plan.out);
                sleep = Some(Box::pin(tokio::time::sleep(Duration::from_millis(plan.latency_ms))));
            }
        }
        g.calls.push(rec);
        let live_now = g.live();
        g.peak_live = g.peak_live.max(live_now);
        let cb = g.on_call.clone();
        drop(g);
        if let Some(cb) = cb {
            cb(k);
        }
        if burn_ms > 0 {
            crate::clock::burn(Duration::from_millis(burn_ms));
            let mut g = self.st.lock().unwrap();
            let now = g.now_ms();
            g.calls[k].gate_ms = Some(now);
        }
        GatedFuture { st: self.st.clone(), k, sleep, never, done: false }
    }
}

impl Future for GatedFuture {
    type Output = Result<Resp, InnerErr>;
    fn poll(mut self: Pin<&mut Self>, cx: &mut Context<'_>) -> Poll<Self::Output> {
        if self.never {
            let mut g = self.st.lock().unwrap();
            g.calls[self.k].polled = true;
            return Poll::Pending;
        }
        if let Some(s) = self.sleep.as_mut() {
            match s.as_mut().poll(cx) {
                Poll::Pending => {
                    let mut g = self.st.lock().unwrap();
                    g.calls[self.k].polled = true;
                    return Poll::Pending;
                }
                Poll::Ready(()) => {
                    self.sleep = None;
                }
            }
        }
        let k = self.k;
        let mut g = self.st.lock().unwrap();
        let now = g.now_ms();
        let step = g.step;
        g.calls[k].polled = true;
        match g.calls[k].gate {
            None => {
                g.calls[k].waker = Some(cx.waker().clone());
                if g.busy {
                    drop(g);
                    // (bounded: a poll from outside any task has no budget to use up)
                    for _ in 0..256 {
                        match tokio::task::coop::poll_proceed(cx) {
                            Poll::Ready(step) => step.made_progress(),
                            Poll::Pending => break,
                        }
                    }
                }
                Poll::Pending
            }
            Some(out) => {
                let serial = g.fresh_serial();
                let c = &mut g.calls[k];
                c.end_ms = Some(now);
                c.end_step = Some(step);
                let res = match out {
                    Out::Ok => {
                        let r = Resp { serial, req: c.req.id, key: c.req.key };
                        c.status = CallStatus::Ok(r.clone());
                        Ok(r)
                    }
                    Out::Err(kind) => {
                        let e = InnerErr { id: serial, kind };
                        c.status = CallStatus::Err(e.clone());
                        Err(e)
                    }
                    Out::Panic => {
                        c.status = CallStatus::Panicked;
                        drop(g);
                        self.done = true;
                        panic!("scripted inner panic (call #{k})");
                    }
                };
                drop(g);
                self.done = true;
                Poll::Ready(res)
            }
        }
    }
}

impl Drop for GatedFuture {
    fn drop(&mut self) {
        if self.done {
            return;
        }
        // a future that is slow to drop: the hook runs while the call still counts as inside
        let hook = self.st.lock().ok().and_then(|g| if g.calls[self.k].status == CallStatus::Pending { g.on_drop.clone() } else { None });
        if let Some(h) = hook {
            h(self.k);
        }
        if let Ok(mut g) = self.st.lock() {
            let now = g.now_ms();
            let step = g.step;
            let c = &mut g.calls[self.k];
            if c.status == CallStatus::Pending {
                c.status = CallStatus::Dropped;
                c.end_ms = Some(now);
                c.end_step = Some(step);
            }
        }
    }
}
