//! Engine B: CHESS-style stateless exploration of atomic-step interleavings of real
//! functions running on real OS threads.  One thread runs at a time (baton passing);
//! scheduling points are the instrumented atomic operations (yield hook); DFS over choice
//! prefixes with a preemption bound.  Memory model: sequential consistency.

use std::sync::{Arc, Condvar, Mutex};

#[derive(Clone, Debug, PartialEq, Eq)]
enum Turn {
    Controller,
    Thread(usize),
}

struct Inner {
    turn: Turn,
    /// op name each thread is parked at (None = running or finished)
    at: Vec<Option<&'static str>>,
    finished: Vec<bool>,
    /// spurious-failure flag to hand to the thread being resumed
    spurious: bool,
    panicked: Vec<bool>,
}

pub struct Sched {
    mu: Mutex<Inner>,
    cv: Condvar,
}

thread_local! {
    static CUR: std::cell::RefCell<Option<(Arc<Sched>, usize)>> = const { std::cell::RefCell::new(None) };
}

/// The yield hook body: park until the controller hands the baton back.
pub fn yield_point(op: &'static str) -> bool {
    let cur = CUR.with(|c| c.borrow().clone());
    let Some((s, me)) = cur else { return false };
    let mut g = s.mu.lock().unwrap();
    g.at[me] = Some(op);
    g.turn = Turn::Controller;
    s.cv.notify_all();
    while g.turn != Turn::Thread(me) {
        g = s.cv.wait(g).unwrap();
    }
    g.at[me] = None;
    let sp = g.spurious;
    g.spurious = false;
    sp
}

/// One scheduling point of an execution.
#[derive(Clone, Debug)]
pub struct Point {
    /// choices in canonical order: (thread, spurious_failure)
    pub choices: Vec<(usize, bool)>,
    pub chosen: usize,
    /// the previously running thread is still enabled (switching away costs a preemption)
    pub running: Option<usize>,
}

pub struct Execution<R> {
    pub points: Vec<Point>,
    /// per thread: return values of its operations
    pub returns: Vec<Vec<R>>,
    pub step_violation: Option<String>,
    pub trace: Vec<String>,
    pub cas_failures: usize,
    pub panicked: bool,
}

pub type OpFn<S, R> = Arc<dyn Fn(&S) -> R + Send + Sync>;

pub struct Spec<S, R> {
    pub name: String,
    pub make: Arc<dyn Fn() -> S + Send + Sync>,
    /// per thread: (label, op) list
    pub threads: Vec<Vec<(String, OpFn<S, R>)>>,
    /// installs the yield hook of the code under test on the current thread
    pub install_hook: Arc<dyn Fn() + Send + Sync>,
    pub uninstall_hook: Arc<dyn Fn() + Send + Sync>,
    /// invariant evaluated (raw reads, no yields) at every scheduling point
    pub step_check: Arc<dyn Fn(&S) -> Option<String> + Send + Sync>,
    /// allow one spurious compare_exchange_weak failure per execution
    pub spurious: bool,
}

/// Run one execution following `prefix` (then default choice 0 everywhere).
pub fn run<S: Send + Sync + 'static, R: Send + Clone + 'static>(spec: &Spec<S, R>, prefix: &[usize], want_trace: bool) -> (Execution<R>, Arc<S>) {
    let n = spec.threads.len();
    let shared = Arc::new((spec.make)());
    let sched = Arc::new(Sched {
        mu: Mutex::new(Inner { turn: Turn::Controller, at: vec![None; n], finished: vec![false; n], spurious: false, panicked: vec![false; n] }),
        cv: Condvar::new(),
    });
    let results: Arc<Mutex<Vec<Vec<R>>>> = Arc::new(Mutex::new(vec![vec![]; n]));
    let mut handles = vec![];
    for t in 0..n {
        let ops = spec.threads[t].clone();
        let sh = shared.clone();
        let sc = sched.clone();
        let res = results.clone();
        let install = spec.install_hook.clone();
        let uninstall = spec.uninstall_hook.clone();
        handles.push(std::thread::spawn(move || {
            CUR.with(|c| *c.borrow_mut() = Some((sc.clone(), t)));
            install();
            yield_point("start");
            let r = std::panic::catch_unwind(std::panic::AssertUnwindSafe(|| {
                for (_, op) in ops.iter() {
                    let r = op(&sh);
                    res.lock().unwrap()[t].push(r);
                }
            }));
            uninstall();
            CUR.with(|c| *c.borrow_mut() = None);
            let mut g = sc.mu.lock().unwrap();
            g.finished[t] = true;
            if r.is_err() {
                g.panicked[t] = true;
            }
            g.turn = Turn::Controller;
            sc.cv.notify_all();
        }));
    }
    // wait until every thread is parked at its start point
    {
        let mut g = sched.mu.lock().unwrap();
        while !(0..n).all(|t| g.at[t].is_some() || g.finished[t]) {
            g = sched.cv.wait(g).unwrap();
        }
        g.turn = Turn::Controller;
    }
    let mut points: Vec<Point> = vec![];
    let mut trace = vec![];
    let mut step_violation = None;
    let mut running: Option<usize> = None;
    let mut spurious_used = false;
    let mut cas_failures = 0;
    loop {
        let mut g = sched.mu.lock().unwrap();
        while g.turn != Turn::Controller {
            g = sched.cv.wait(g).unwrap();
        }
        // all threads are parked or finished: evaluate the step invariant
        if step_violation.is_none() {
            if let Some(v) = (spec.step_check)(&shared) {
                step_violation = Some(format!("{v} (after {} scheduling points)", points.len()));
            }
        }
        let enabled: Vec<usize> = (0..n).filter(|&t| !g.finished[t]).collect();
        if enabled.is_empty() {
            break;
        }
        // canonical order: the running thread first if still enabled, then ascending ids
        let mut order: Vec<usize> = vec![];
        let run_still = running.filter(|r| enabled.contains(r));
        if let Some(r) = run_still {
            order.push(r);
        }
        for &t in &enabled {
            if Some(t) != run_still {
                order.push(t);
            }
        }
        let mut choices: Vec<(usize, bool)> = order.iter().map(|&t| (t, false)).collect();
        if spec.spurious && !spurious_used {
            for &t in &order {
                if g.at[t] == Some("compare_exchange_weak") {
                    choices.push((t, true));
                }
            }
        }
        let idx = points.len();
        let chosen = if idx < prefix.len() { prefix[idx] } else { 0 };
        if chosen >= choices.len() {
            // a divergence while replaying a prefix is a hard machinery error
            eprintln!("MACHINERY ilv: choice {chosen} out of range ({} choices) at point {idx} while replaying {:?}", choices.len(), prefix);
            std::process::exit(2);
        }
        let (t, sp) = choices[chosen];
        if want_trace {
            trace.push(format!("point {idx}: run thread {t} at {:?}{}", g.at[t].unwrap_or("?"), if sp { " (spurious CAS failure)" } else { "" }));
        }
        if sp {
            spurious_used = true;
            cas_failures += 1;
        }
        points.push(Point { choices, chosen, running: run_still });
        running = Some(t);
        g.spurious = sp;
        g.turn = Turn::Thread(t);
        sched.cv.notify_all();
    }
    for h in handles {
        let _ = h.join();
    }
    let panicked = sched.mu.lock().unwrap().panicked.iter().any(|p| *p);
    let returns = results.lock().unwrap().clone();
    (Execution { points, returns, step_violation, trace, cas_failures, panicked }, shared)
}

fn preemptions_before(points: &[Point], i: usize) -> usize {
    points[..i]
        .iter()
        .filter(|p| match p.running {
            Some(r) => p.choices[p.chosen].0 != r,
            None => false,
        })
        .count()
}

thread_local! {
    static DEADLINE: std::cell::Cell<Option<std::time::Instant>> = const { std::cell::Cell::new(None) };
}

/// Wall-clock cap for the explorations started by the calling thread (None = no cap). When
/// it passes, `explore` stops and reports `capped` (the run is then not called exhaustive).
pub fn set_deadline(d: Option<std::time::Instant>) {
    DEADLINE.with(|c| c.set(d));
}

pub struct IlvStats {
    pub schedules: u64,
    pub max_points: usize,
    pub bound_completed: Option<usize>,
    pub capped: bool,
}

/// Preemption-bounded DFS (bound = None: unbounded).  `on_exec` judges each complete
/// execution and returns false to stop early.
pub fn explore<S: Send + Sync + 'static, R: Send + Clone + 'static>(
    spec: &Spec<S, R>,
    bound: Option<usize>,
    max_schedules: u64,
    mut on_exec: impl FnMut(&Execution<R>, &S, &[usize]) -> bool,
) -> IlvStats {
    let mut stats = IlvStats { schedules: 0, max_points: 0, bound_completed: bound, capped: false };
    let mut stack: Vec<Vec<usize>> = vec![vec![]];
    while let Some(prefix) = stack.pop() {
        if stats.schedules >= max_schedules || DEADLINE.with(|c| c.get()).map_or(false, |d| std::time::Instant::now() > d) {
            stats.capped = true;
            stats.bound_completed = None;
            break;
        }
        let (x, shared) = run(spec, &prefix, false);
        stats.schedules += 1;
        stats.max_points = stats.max_points.max(x.points.len());
        let choices: Vec<usize> = x.points.iter().map(|p| p.chosen).collect();
        if !on_exec(&x, &shared, &choices) {
            break;
        }
        for i in prefix.len()..x.points.len() {
            let p = &x.points[i];
            let base = preemptions_before(&x.points, i);
            for alt in 1..p.choices.len() {
                let (t, _sp) = p.choices[alt];
                let mut cost = base;
                if let Some(r) = p.running {
                    if t != r {
                        cost += 1;
                    }
                }
                if let Some(b) = bound {
                    if cost > b {
                        continue;
                    }
                }
                let mut np: Vec<usize> = choices[..i].to_vec();
                np.push(alt);
                stack.push(np);
            }
        }
    }
    stats
}

/// All sequential executions (every merge of the per-thread operation lists) on fresh
/// instances of the real structure: the structure itself is the sequential specification.
pub fn sequential_outcomes<S, R: Clone + Ord + std::fmt::Debug, F: Fn(&S) -> String>(
    spec: &Spec<S, R>,
    observe: F,
) -> std::collections::BTreeSet<String> {
    fn rec<S, R: Clone + Ord + std::fmt::Debug>(
        spec: &Spec<S, R>,
        pos: &mut Vec<usize>,
        order: &mut Vec<usize>,
        out: &mut Vec<Vec<usize>>,
    ) {
        let mut any = false;
        for t in 0..spec.threads.len() {
            if pos[t] < spec.threads[t].len() {
                any = true;
                pos[t] += 1;
                order.push(t);
                rec(spec, pos, order, out);
                order.pop();
                pos[t] -= 1;
            }
        }
        if !any {
            out.push(order.clone());
        }
    }
    let mut orders = vec![];
    rec(spec, &mut vec![0; spec.threads.len()], &mut vec![], &mut orders);
    let mut set = std::collections::BTreeSet::new();
    for o in orders {
        let s = (spec.make)();
        let mut pos = vec![0; spec.threads.len()];
        let mut rets: Vec<Vec<R>> = vec![vec![]; spec.threads.len()];
        for t in o {
            let r = (spec.threads[t][pos[t]].1)(&s);
            rets[t].push(r);
            pos[t] += 1;
        }
        set.insert(format!("{:?}|{}", rets, observe(&s)));
    }
    set
}

// ---------------------------------------------------------------------------------------
// Generic driver: preemption-bounded exploration + invariant + brute-force linearizability,
// reporting into a `Report` (used by the lock-granularity checks of C02/C15 and C11).

use crate::evidence::{Report, Violation};

pub struct LinCheck<'a, S, R> {
    pub property: &'a str,
    pub site: &'a str,
    pub label: String,
    pub spec: &'a Spec<S, R>,
    /// preemption bounds to iterate (None = unbounded)
    pub bounds: Vec<Option<usize>>,
    pub max_schedules: u64,
    /// observable final state (part of the outcome compared with the sequential executions)
    pub observe: &'a (dyn Fn(&S) -> String + Sync),
    /// further clauses judged on every complete execution: (kind, detail)
    pub extra: &'a (dyn Fn(&Execution<R>, &S) -> Vec<(String, String)> + Sync),
    /// compare outcomes with the sequential executions of the real structure
    pub linearizable: bool,
}

/// The violation kinds found by running one schedule (used for exploration and for replay).
pub fn judge_schedule<S: Send + Sync + 'static, R: Send + Clone + Ord + std::fmt::Debug + 'static>(
    c: &LinCheck<S, R>,
    seq: &std::collections::BTreeSet<String>,
    x: &Execution<R>,
    shared: &S,
) -> (String, Vec<(String, String)>) {
    let outcome = format!("{:?}|{}", x.returns, (c.observe)(shared));
    let mut v = vec![];
    if let Some(sv) = &x.step_violation {
        v.push(("step_invariant".to_string(), sv.clone()));
    }
    if x.panicked {
        v.push(("panic".to_string(), "an operation panicked".to_string()));
    }
    v.extend((c.extra)(x, shared));
    if c.linearizable && !seq.contains(&outcome) {
        v.push(("not_linearizable".to_string(), format!("concurrent outcome {outcome} equals no one-at-a-time execution {:?}", seq)));
    }
    (outcome, v)
}

pub fn check_linearizable<S: Send + Sync + 'static, R: Send + Clone + Ord + std::fmt::Debug + 'static>(c: &LinCheck<S, R>, rep: &mut Report) {
    let seq = if c.linearizable { sequential_outcomes(c.spec, |s| (c.observe)(s)) } else { Default::default() };
    let mut seen: std::collections::BTreeSet<String> = Default::default();
    let mut total = 0u64;
    let mut preempted = 0u64;
    let mut bound_done: Option<String> = None;
    let mut found: Vec<(String, String, Vec<usize>)> = vec![];
    // kinds of the form "witness:<name>" returned by `extra` are vacuity witnesses, not violations
    let mut wit: std::collections::BTreeMap<String, u64> = Default::default();
    for b in &c.bounds {
        let mut local: Vec<(String, String, Vec<usize>)> = vec![];
        let stats = explore(c.spec, *b, c.max_schedules, |x, shared, choices| {
            let (outcome, v) = judge_schedule(c, &seq, x, shared);
            let (w, v): (Vec<_>, Vec<_>) = v.into_iter().partition(|(k, _)| k.starts_with("witness:"));
            for (k, _) in w {
                *wit.entry(k[8..].to_string()).or_default() += 1;
            }
            seen.insert(outcome);
            if x.points.iter().any(|p| p.running.map_or(false, |r| p.choices[p.chosen].0 != r)) {
                preempted += 1;
            }
            for (k, d) in v {
                if !local.iter().any(|f| f.0 == k) {
                    local.push((k, d, choices.to_vec()));
                }
            }
            local.is_empty()
        });
        total += stats.schedules;
        if stats.capped {
            rep.caps.push(format!("{}: schedule cap hit at preemption bound {:?}", c.label, b));
            break;
        }
        bound_done = Some(match b {
            Some(n) => n.to_string(),
            None => "unbounded".into(),
        });
        let stop = !local.is_empty();
        for f in local {
            if !found.iter().any(|g| g.0 == f.0) {
                found.push(f);
            }
        }
        if stop {
            break;
        }
    }
    rep.states += seen.len() as u64;
    rep.transitions += total;
    rep.executions += total;
    for o in &seen {
        rep.outcomes.insert(format!("{}:{o}", c.site));
    }
    for (k, n) in wit {
        rep.witness(&k, n);
    }
    rep.witness("thread_schedules_with_preemption", preempted);
    if seen.len() >= 2 {
        rep.witness("thread_config_with_several_outcomes", 1);
    }
    rep.configs.push(serde_json::json!({"config": c.label, "thread_schedules": total, "preemption_bound_completed": bound_done, "distinct_outcomes": seen.len(), "sequential_outcomes": seq.len()}));
    for (kind, detail, choices) in found {
        let (a, _) = run(c.spec, &choices, true);
        let (b, _) = run(c.spec, &choices, true);
        rep.replay_checks += 1;
        if a.trace != b.trace || a.returns != b.returns {
            rep.replay_divergences += 1;
            rep.machinery.push(format!("{}: schedule {:?} does not replay deterministically", c.label, choices));
            continue;
        }
        rep.violations.push(Violation { property: c.property.into(), kind, site: c.site.into(), config: c.label.clone(), history: serde_json::json!({"thread_schedule": choices}), detail, log: a.trace });
    }
}

/// Re-run one recorded schedule (twice); true if a violation of `kind` occurs.
pub fn replay_schedule<S: Send + Sync + 'static, R: Send + Clone + Ord + std::fmt::Debug + 'static>(c: &LinCheck<S, R>, choices: &[usize], kind: &str) -> bool {
    let seq = if c.linearizable { sequential_outcomes(c.spec, |s| (c.observe)(s)) } else { Default::default() };
    let (a, sa) = run(c.spec, choices, true);
    let (b, _) = run(c.spec, choices, true);
    if a.trace != b.trace || a.returns != b.returns {
        eprintln!("MACHINERY replay divergence");
        std::process::exit(2);
    }
    for l in &a.trace {
        println!("{l}");
    }
    let (outcome, v) = judge_schedule(c, &seq, &a, &sa);
    println!("outcome: {outcome}");
    for (k, d) in v.iter().filter(|(k, _)| !k.starts_with("witness:")) {
        println!("VIOLATED {k}: {d}");
    }
    v.iter().any(|(k, _)| k == kind)
}

/// A waker that does nothing (operations under engine B are polled by their own thread).
pub fn noop_waker() -> std::task::Waker {
    struct N;
    impl std::task::Wake for N {
        fn wake(self: Arc<Self>) {}
    }
    std::task::Waker::from(Arc::new(N))
}
