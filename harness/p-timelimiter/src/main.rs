//! C06 — time limiter resolves every call by its deadline (engine A).

use serde_json::json;
use std::time::Duration;
use tower::{Layer, Service};
use tower_resilience_timelimiter::{TimeLimiterError, TimeLimiterLayer};
use trv_core::evidence::{Report, Tier};
use trv_core::inner::{CallStatus, GatedInner, InnerErr, Out, Req, Resp};
use trv_core::svcx::{self, Action, Counts, Opts, Scenario, Viol};
use trv_core::world::{drive_ready, CallerFut, Outcome, Phase, World};

trv_core::install_clock_seam!();

#[derive(Clone)]
struct Tl {
    /// builder calls issued as cancel_running_future(..) first, timeout second
    flag_first: bool,
    cancel: bool,
    per_request: bool,
    callers: usize,
    max_ticks: usize,
    max_drops: usize,
    seed: u64,
    /// every finite timeout (and the explorer's time grid) is multiplied by this: 1, or 101
    /// for the seconds-range configurations (20 ms -> 2.02 s)
    scale: u64,
    /// the executor may poll woken calls late (this many ticks may pass first); the clauses
    /// about *when* the call resolves presuppose prompt polling and are not judged then, but
    /// "the inner result if the inner call finished before the deadline" still is
    late_ticks: usize,
    /// the inner call never waits: every poll uses up the task's cooperative budget (see
    /// `InnerState::busy`), so the caller's task is runnable all the time while time passes
    busy: bool,
    /// readiness of the wrapped service belongs to the instance that was polled: a clone taken
    /// from a ready instance needs 10 ms of its own (see InnerState::clone_of_ready_needs_ms). A
    /// limiter that readies another instance inside the call has that wait inside its deadline
    instance_readiness: bool,
}

struct X {
    start: Box<dyn FnMut(Req) -> CallerFut>,
    tie_result: bool,
    tie_timeout: bool,
}

/// "no deadline": requests with key 2 (per-request mode) get Duration::MAX
const UNBOUNDED: u64 = u64::MAX / 4;

fn timeout_of(per_request: bool, key: u8) -> u64 {
    timeout_of_scaled(per_request, key, 1)
}

fn timeout_of_scaled(per_request: bool, key: u8, scale: u64) -> u64 {
    let t = base_timeout(per_request, key);
    if t == UNBOUNDED || (per_request && (key == 4 || key == 5)) {
        t
    } else {
        t * scale
    }
}

fn base_timeout(per_request: bool, key: u8) -> u64 {
    if per_request && key == 1 {
        30
    } else if per_request && key == 2 {
        UNBOUNDED
    } else if per_request && key == 3 {
        0
    } else if per_request && key == 4 {
        // configured as 9.75 ms: tokio's timers fire at the next millisecond boundary
        10
    } else if per_request && key == 5 {
        // configured as 0.5 ms (less than a millisecond, but not zero)
        1
    } else {
        20
    }
}

fn dur(ms: u64) -> Duration {
    if ms == UNBOUNDED {
        Duration::MAX
    } else {
        Duration::from_millis(ms)
    }
}

fn map(r: Result<Resp, TimeLimiterError<InnerErr>>) -> Outcome {
    match r {
        Ok(r) => Outcome::Ok(r),
        Err(TimeLimiterError::Inner(e)) => Outcome::Inner(e),
        Err(TimeLimiterError::Timeout) => Outcome::Layer("Timeout".into()),
    }
}

impl Scenario for Tl {
    type X = X;
    fn property(&self) -> &'static str {
        "C06"
    }
    fn label(&self) -> String {
        format!("timelimiter cancel={} per_request={} callers={} select_seed={}{}", self.cancel, self.per_request, self.callers, self.seed, if self.flag_first { " builder_order=flag_first" } else if self.scale != 1 { " x101" } else if self.busy { " busy-inner" } else if self.late_ticks > 0 { " late-polls" } else if self.instance_readiness { " readiness-belongs-to-the-polled-instance" } else { "" })
    }
    fn callers(&self) -> usize {
        self.callers
    }
    fn rng_seed(&self) -> u64 {
        self.seed
    }
    fn grid_ms(&self) -> u64 {
        10 * self.scale
    }
    fn late_ticks(&self) -> usize {
        self.late_ticks
    }
    fn init(&self, w: &mut World) -> X {
        w.inner.lock().unwrap().busy = self.busy;
        if self.instance_readiness {
            w.inner.lock().unwrap().clone_of_ready_needs_ms = Some(10);
        }
        let inner = GatedInner::new(w.inner.clone());
        let start: Box<dyn FnMut(Req) -> CallerFut> = if self.per_request {
            fn per_req(r: &Req) -> Duration {
                if r.key == 4 {
                    return Duration::from_micros(9750);
                }
                if r.key == 5 {
                    return Duration::from_micros(500);
                }
                dur(timeout_of(true, r.key))
            }
            fn per_req_x101(r: &Req) -> Duration {
                if r.key == 4 {
                    return Duration::from_micros(9750);
                }
                if r.key == 5 {
                    return Duration::from_micros(500);
                }
                dur(timeout_of_scaled(true, r.key, 101))
            }
            assert!(self.scale == 1 || self.scale == 101);
            let f: fn(&Req) -> Duration = if self.scale == 101 { per_req_x101 } else { per_req };
            let layer = if self.flag_first {
                TimeLimiterLayer::builder().cancel_running_future(self.cancel).timeout_fn(f).on_success(move |_| {}).on_error(move |_| {}).on_timeout(|| {}).build()
            } else {
                TimeLimiterLayer::builder().timeout_fn(f).cancel_running_future(self.cancel).build()
            };
            let svc = layer.clone().layer(inner);
            Box::new(move |req: Req| {
                let mut s = svc.clone();
                drive_ready::<_, Req>(&mut s, 4).expect("ready").ok();
                let f = s.call(req);
                Box::pin(async move { map(f.await) })
            })
        } else {
            let layer = if self.flag_first {
                TimeLimiterLayer::builder().cancel_running_future(self.cancel).timeout_duration(Duration::from_millis(20 * self.scale)).on_success(move |_| {}).on_error(move |_| {}).on_timeout(|| {}).build()
            } else {
                TimeLimiterLayer::builder().timeout_duration(Duration::from_millis(20 * self.scale)).cancel_running_future(self.cancel).build()
            };
            let svc = layer.clone().layer(inner);
            Box::new(move |req: Req| {
                let mut s = svc.clone();
                drive_ready::<_, Req>(&mut s, 4).expect("ready").ok();
                let f = s.call(req);
                Box::pin(async move { map(f.await) })
            })
        };
        X { start, tie_result: false, tie_timeout: false }
    }
    fn arrive_variants(&self, _w: &World, _x: &X, _c: usize) -> Vec<u8> {
        if self.per_request {
            vec![0, 1, 2, 3, 4, 5]
        } else {
            vec![0]
        }
    }
    fn arrive(&self, w: &mut World, x: &mut X, c: usize, v: u8) {
        let req = Req::new(c as u32, v);
        let fut = (x.start)(req.clone());
        w.set_arrived(c, req, fut);
    }
    fn outs(&self) -> Vec<Out> {
        vec![Out::Ok, Out::Err(0)]
    }
    fn allow(&self, _w: &World, _x: &X, h: &[Action], a: &Action) -> bool {
        let c = Counts::of(h);
        match a {
            Action::Tick => c.ticks < self.max_ticks,
            Action::Drop(_) => c.drops < self.max_drops,
            _ => true,
        }
    }
    fn after(&self, w: &mut World, x: &mut X, a: &Action, out: &mut Vec<Viol>) {
        let site = if self.cancel { "cancel_mode" } else { "background_mode" };
        let now = w.now_ms();
        for (c, cl) in w.callers.iter().enumerate() {
            let (Some(req), Some(t0)) = (&cl.req, cl.first_poll_ms) else { continue };
            let deadline = t0 + timeout_of_scaled(self.per_request, req.key, self.scale);
            let g = w.inner.lock().unwrap();
            let call = g.calls.iter().find(|k| k.req.id == req.id);
            // instant at which the inner result became available (gate opened)
            let avail = call.and_then(|k| k.gate_ms);
            let avail_out = call.and_then(|k| k.gate);
            match &cl.phase {
                Phase::Live => {
                    // whatever the executor and the inner call do in between: a poll at or
                    // after the deadline finds the deadline reached
                    if now >= deadline && matches!(a, Action::Poll(p) if *p as usize == c) {
                        out.push(Viol::new("pending_although_polled_after_deadline", site, format!("caller {c}: first polled {t0}, deadline {deadline}, polled at {now} and still unresolved")));
                    }
                    if let (Some(tr), true) = (avail, self.late_ticks == 0) {
                        if tr < deadline && !w.needs_poll(c) && cl.last_poll_ms.map_or(true, |lp| lp < tr || cl.wakes_at_last_poll_end < cl.wake_count()) && !cl.flag_set() {
                            out.push(Viol::new("not_woken_on_result", site, format!("caller {c}: inner result available at {tr} < deadline {deadline}, but the caller was not woken")));
                        }
                    }
                    if self.late_ticks > 0 {
                        // (a late executor: nothing about the instant of resolution is judged)
                    } else if now > deadline {
                        out.push(Viol::new("unresolved_after_deadline", site, format!("caller {c}: first polled {t0}, deadline {deadline}, still unresolved at {now}")));
                    } else if now == deadline && avail.is_none() && !cl.flag_set() && !matches!(a, Action::Poll(p) if *p as usize == c) {
                        out.push(Viol::new("not_woken_at_deadline", site, format!("caller {c}: deadline {deadline} reached without a wake-up")));
                    }
                }
                Phase::Done(o) => {
                    let d = cl.done_ms.unwrap();
                    if d > deadline && self.late_ticks == 0 {
                        out.push(Viol::new("resolved_after_deadline", site, format!("caller {c}: deadline {deadline}, resolved at {d}")));
                    }
                    match o {
                        Outcome::Layer(_) => {
                            if d < deadline {
                                out.push(Viol::new("timeout_before_deadline", site, format!("caller {c}: timeout error at {d}, deadline {deadline}")));
                            }
                            if let Some(tr) = avail {
                                if tr < deadline {
                                    out.push(Viol::new("timeout_despite_result", site, format!("caller {c}: inner result available at {tr} < deadline {deadline}, but the call timed out")));
                                } else if tr == deadline && d == deadline {
                                    x.tie_timeout = true;
                                }
                            }
                            if let Some(k) = call {
                                if self.cancel {
                                    if k.status != CallStatus::Dropped || (k.end_ms != Some(deadline) && self.late_ticks == 0) || (cl.done_step.is_some() && k.end_step != cl.done_step) {
                                        out.push(Viol::new("not_cancelled_at_deadline", site, format!("caller {c}: timed out at {d} but the inner call is {:?} (ended {:?})", k.status, k.end_ms)));
                                    }
                                } else if k.status == CallStatus::Dropped {
                                    out.push(Viol::new("background_call_dropped", site, format!("caller {c}: cancellation disabled but the inner call was dropped at {:?}", k.end_ms)));
                                }
                            }
                        }
                        Outcome::Ok(_) | Outcome::Inner(_) => {
                            // exactly the inner call's result, at the instant it became available
                            let same = match (call.map(|k| &k.status), o) {
                                (Some(CallStatus::Ok(r)), Outcome::Ok(r2)) => r == r2,
                                (Some(CallStatus::Err(e)), Outcome::Inner(e2)) => e == e2,
                                _ => false,
                            };
                            if !same {
                                out.push(Viol::new("wrong_result", site, format!("caller {c}: returned {:?} but its inner call ended {:?} (scripted {:?})", o, call.map(|k| &k.status), avail_out)));
                            }
                            if let Some(tr) = avail {
                                if d != tr && d <= deadline && tr < deadline && self.late_ticks == 0 {
                                    out.push(Viol::new("result_not_at_once", site, format!("caller {c}: result available at {tr}, delivered at {d}")));
                                }
                                if tr == deadline && d == deadline {
                                    x.tie_result = true;
                                }
                            }
                        }
                    }
                }
                Phase::Dropped => {
                    if let Some(k) = call {
                        if !self.cancel && k.status == CallStatus::Dropped {
                            out.push(Viol::new("background_call_dropped", site, format!("caller {c} was dropped; cancellation disabled but the inner call was dropped too")));
                        }
                    }
                }
                _ => {}
            }
        }
    }
    fn witnesses(&self, w: &World, x: &X, _h: &[Action]) -> Vec<&'static str> {
        let mut v = vec![];
        if x.tie_result {
            v.push("tie_at_deadline_resolved_as_result");
        }
        if self.late_ticks > 0 {
            for cl in &w.callers {
                if let (Some(req), Some(t0), Some(d)) = (&cl.req, cl.first_poll_ms, cl.done_ms) {
                    if matches!(&cl.phase, Phase::Done(Outcome::Ok(_)) | Phase::Done(Outcome::Inner(_))) && d > t0 + timeout_of_scaled(self.per_request, req.key, self.scale) {
                        v.push("result_delivered_by_a_late_poll_after_the_deadline");
                    }
                }
            }
        }
        if x.tie_timeout {
            v.push("tie_at_deadline_resolved_as_timeout");
        }
        let mut deadlines = std::collections::BTreeSet::new();
        for cl in &w.callers {
            if let (Some(r), Some(t0), true) = (&cl.req, cl.first_poll_ms, cl.is_live()) {
                deadlines.insert(t0 + timeout_of_scaled(self.per_request, r.key, self.scale));
            }
            if matches!(&cl.phase, Phase::Done(Outcome::Layer(_))) {
                v.push("timed_out");
                if !self.cancel && w.inner_live() > 0 {
                    v.push("background_call_still_running_after_timeout");
                }
            }
            if matches!(&cl.phase, Phase::Done(Outcome::Ok(_)) | Phase::Done(Outcome::Inner(_))) {
                v.push("result_before_deadline");
            }
        }
        if deadlines.len() >= 2 {
            v.push("two_live_calls_with_different_deadlines");
        }
        v
    }
    fn epilogue(&self, w: &mut World, x: &mut X, out: &mut Vec<Viol>) -> String {
        let site = if self.cancel { "cancel_mode" } else { "background_mode" };
        // let every still-live caller run into its deadline without opening gates first
        // (callers without a deadline get their inner result instead)
        let per_request = self.per_request;
        let open_unbounded = |w: &mut World| {
            let unbounded: Vec<u32> = w.callers.iter().filter(|c| c.is_live()).filter_map(|c| c.req.clone()).filter(|r| timeout_of(per_request, r.key) == UNBOUNDED).map(|r| r.id).collect();
            let ks: Vec<usize> = {
                let g = w.inner.lock().unwrap();
                g.calls.iter().filter(|k| unbounded.contains(&k.req.id) && k.status == CallStatus::Pending && k.gate.is_none()).map(|k| k.k).collect()
            };
            for k in ks {
                w.complete(k, Out::Ok);
            }
        };
        for _ in 0..8 {
            for c in 0..w.callers.len() {
                if w.needs_poll(c) {
                    w.poll_caller(c);
                }
            }
            open_unbounded(w);
            for c in 0..w.callers.len() {
                if w.needs_poll(c) {
                    w.poll_caller(c);
                }
            }
            if w.live_callers().is_empty() {
                break;
            }
            w.tick();
        }
        for c in 0..w.callers.len() {
            if w.needs_poll(c) {
                w.poll_caller(c);
            }
        }
        if !w.live_callers().is_empty() {
            out.push(Viol::new("caller_never_resolves", site, format!("callers {:?} unresolved long after their deadlines", w.live_callers())));
            return "stuck".into();
        }
        let mut v = vec![];
        self.after(w, x, &Action::Tick, &mut v);
        out.extend(v);
        // background mode: every inner call still pending keeps running to completion
        let pending = w.inner.lock().unwrap().gateable();
        for k in &pending {
            w.complete(*k, Out::Ok);
        }
        w.settle();
        if !self.cancel {
            let g = w.inner.lock().unwrap();
            // a call that timed out still has its inner call run in the background - even when
            // the deadline passed before the background task was first scheduled
            for (c, cl) in w.callers.iter().enumerate() {
                if let (Phase::Done(Outcome::Layer(_)), Some(r)) = (&cl.phase, &cl.req) {
                    if !g.calls.iter().any(|k| k.req.id == r.id) {
                        out.push(Viol::new("background_call_never_started", site, format!("caller {c} (timeout {}ms) timed out and its request never reached the inner service", timeout_of_scaled(self.per_request, r.key, self.scale))));
                    }
                }
            }
            for k in g.calls.iter() {
                if !matches!(k.status, CallStatus::Ok(_) | CallStatus::Err(_)) {
                    out.push(Viol::new("background_call_not_completed", site, format!("inner call {} (req {}) ended {:?} instead of running to completion", k.k, k.req.id, k.status)));
                }
            }
        }
        let sig: Vec<String> = w.callers.iter().map(|c| match &c.phase { Phase::Done(o) => o.tag(), p => format!("{p:?}") }).collect();
        format!("{sig:?}")
    }
}

fn configs(tier: Tier) -> Vec<Tl> {
    let mut v = vec![];
    for cancel in [true, false] {
        for per_request in [false, true] {
            let seeds: Vec<u64> = if cancel { vec![1] } else { tier.pick(vec![1, 2], vec![1, 2, 3, 4]) };
            for seed in seeds {
                // thorough: three callers under the first select! seed
                let callers = if tier == Tier::Thorough && seed == 1 { 3 } else { 2 };
                v.push(Tl { flag_first: false, cancel, per_request, callers, max_ticks: tier.pick(4, 6), max_drops: 1, seed, scale: 1, late_ticks: 0, busy: false, instance_readiness: false });
            }
            // the same with the builder calls in the other order
            v.push(Tl { flag_first: true, cancel, per_request, callers: 2, max_ticks: tier.pick(4, 5), max_drops: 1, seed: 1, scale: 1, late_ticks: 0, busy: false, instance_readiness: false });
            // timeouts in the seconds range (2.02 s / 3.03 s on a 1.01 s grid)
            v.push(Tl { flag_first: false, cancel, per_request, callers: 2, max_ticks: tier.pick(4, 5), max_drops: 1, seed: 1, scale: 101, late_ticks: 0, busy: false, instance_readiness: false });
            // an inner call that uses up the task's cooperative budget in every poll: the task
            // is always runnable, time passes between its polls.  (Cancelling mode only: the
            // other mode runs the inner call in a task of its own, and under the paused clock
            // virtual time only moves when the runtime has nothing left to run.)
            if cancel {
                v.push(Tl { flag_first: false, cancel, per_request, callers: tier.pick(1, 2), max_ticks: tier.pick(3, 4), max_drops: 0, seed: 1, scale: 1, late_ticks: tier.pick(3, 4), busy: true, instance_readiness: false });
            }
            // readiness that belongs to the polled instance
            v.push(Tl { flag_first: false, cancel, per_request, callers: 2, max_ticks: tier.pick(4, 5), max_drops: 1, seed: 1, scale: 1, late_ticks: 0, busy: false, instance_readiness: true });
            // a late executor
            v.push(Tl { flag_first: false, cancel, per_request, callers: 2, max_ticks: tier.pick(4, 5), max_drops: 0, seed: 1, scale: 1, late_ticks: 2, busy: false, instance_readiness: false });
        }
    }
    v
}

/// One layer, two runtimes: the first request is served on a runtime that is then dropped (a
/// stack in a `static` shared by several tests, a bootstrap runtime followed by a serving one);
/// the second request, on a fresh runtime, finds an inner call that answers in time and must get
/// its answer, in both modes.
fn two_runtimes(rep: &mut Report) {
    for cancel in [true, false] {
        let wa = World::new(0, 10, trv_core::inner::Mode::Script, 1);
        wa.inner.lock().unwrap().default_plan = trv_core::inner::Plan::now(Out::Ok);
        let state = wa.inner.clone();
        let layer = TimeLimiterLayer::builder().timeout_duration(Duration::from_millis(100)).cancel_running_future(cancel).build();
        let mut svc = layer.clone().layer(GatedInner::new(wa.inner.clone()));
        let first = wa.block_on(async {
            let _ = futures::future::poll_fn(|cx| tower::Service::<Req>::poll_ready(&mut svc, cx)).await;
            tower::Service::call(&mut svc, Req::new(1, 0)).await.is_ok()
        });
        drop(wa);
        let wb = World::new(0, 10, trv_core::inner::Mode::Script, 1);
        let mut svc2 = svc.clone();
        let second = std::panic::catch_unwind(std::panic::AssertUnwindSafe(|| {
            wb.block_on(async {
                let _ = futures::future::poll_fn(|cx| tower::Service::<Req>::poll_ready(&mut svc2, cx)).await;
                match tower::Service::call(&mut svc2, Req::new(2, 0)).await {
                    Ok(_) => "ok".to_string(),
                    Err(TimeLimiterError::Timeout) => "timeout".to_string(),
                    Err(TimeLimiterError::Inner(_)) => "inner error".to_string(),
                }
            })
        }))
        .unwrap_or_else(|_| "panicked".to_string());
        let calls = state.lock().unwrap().calls.len();
        rep.evaluations += 1;
        rep.witness("second_request_on_a_second_runtime", 1);
        if !first || second != "ok" || calls != 2 {
            rep.violations.push(trv_core::evidence::Violation {
                property: "C06".into(),
                kind: "second_runtime_not_served".into(),
                site: if cancel { "cancel_mode" } else { "background_mode" }.into(),
                config: format!("timelimiter cancel={cancel} timeout=100ms, one layer used from two runtimes in turn"),
                history: serde_json::json!(["request 1 on runtime A", "runtime A dropped", "request 2 on runtime B"]),
                detail: format!("first request ok={first}; second request (inner call answers at once): {second}; inner calls {calls}"),
                log: vec![],
            });
        }
    }
}

fn main() {
    trv_core::startup();
    let cli = trv_core::parse_cli();
    if cli.property != "C06" {
        eprintln!("p-timelimiter serves C06");
        std::process::exit(2);
    }
    if let Some(p) = cli.replay {
        let mut c = configs(Tier::Quick);
        c.extend(configs(Tier::Thorough));
        svcx::replay_main("C06", &p, c);
    }
    let tier = cli.tier;
    let mut rep = Report::new("C06", tier, "model_checking");
    rep.rule = "BFS over action histories {Arrive(request variant),Poll,Drop,Complete(ok|err),Tick} of the real TimeLimiter in both cancellation modes, fixed and per-request timeouts, two callers, several select! seeds".into();
    rep.assumptions = vec![
        "prompt executor; the deadline starts at the first poll of the call future".into(),
        "unbiased select! start branch is fixed per execution by the runtime's rng_seed (tokio_unstable); explored under several seeds".into(),
        "an inner completion exactly at the deadline may resolve either way".into(),
    ];
    for w in ["timed_out", "result_before_deadline", "two_live_calls_with_different_deadlines", "background_call_still_running_after_timeout", "tie_at_deadline_resolved_as_result", "tie_at_deadline_resolved_as_timeout", "result_delivered_by_a_late_poll_after_the_deadline"] {
        rep.require_witness(w);
    }
    let depth = tier.pick(10, 15);
    rep.bounds = json!({"depth": depth, "callers": "2 (thorough: 3 under the first select! seed)", "timeouts_ms": [20, 30, "Duration::MAX", 0, 9.75, 0.5], "grid_ms": 10});
    for cfg in configs(tier) {
        // three callers with five arrival variants each: a shallower bound keeps the level complete
        let d = if cfg.per_request && cfg.callers == 3 { 12 } else { depth };
        let opts = Opts { max_depth: d, time_cap: Duration::from_secs(tier.pick(30, 600)), state_cap: tier.pick(2_000_000, 8_000_000), ..Opts::default() };
        let ex = svcx::explore(&cfg, &opts, &mut rep);
        if tier == Tier::Thorough && cfg.seed == 1 {
            svcx::validate_abstraction(&cfg, 6, &ex.fingerprints, ex.depth_completed, &mut rep);
        }
    }
    two_runtimes(&mut rep);
    trv_core::finish(rep);
}
