//! Type erasure over the thirteen middleware, plus the contract probe.

use futures::future::BoxFuture;
use std::sync::{Arc, Mutex};
use std::task::{Context, Poll};
use tower::Service;
use trv_core::inner::{InnerErr, Req, Resp};

/// Normalised error of a (possibly stacked) middleware.
#[derive(Clone, Debug, PartialEq)]
pub enum EOut {
    /// the inner service's error, carried in the layer's pass-through variant
    PassThrough(InnerErr),
    /// an error the layer produced itself
    Layer(String),
}

pub trait Erased: Send {
    fn poll_ready(&mut self, cx: &mut Context<'_>) -> Poll<Result<(), EOut>>;
    fn call(&mut self, req: Req) -> BoxFuture<'static, Result<Resp, EOut>>;
    fn clone_box(&self) -> Box<dyn Erased>;
}

pub struct Wrap<S, M> {
    pub svc: S,
    pub map: M,
}

impl<S, M> Erased for Wrap<S, M>
where
    S: Service<Req, Response = Resp> + Clone + Send + 'static,
    S::Future: Send + 'static,
    S::Error: 'static,
    M: Fn(S::Error) -> EOut + Clone + Send + 'static,
{
    fn poll_ready(&mut self, cx: &mut Context<'_>) -> Poll<Result<(), EOut>> {
        self.svc.poll_ready(cx).map_err(&self.map)
    }
    fn call(&mut self, req: Req) -> BoxFuture<'static, Result<Resp, EOut>> {
        let f = self.svc.call(req);
        let m = self.map.clone();
        Box::pin(async move { f.await.map_err(m) })
    }
    fn clone_box(&self) -> Box<dyn Erased> {
        Box::new(Wrap { svc: self.svc.clone(), map: self.map.clone() })
    }
}

pub fn erase<S, M>(svc: S, map: M) -> Box<dyn Erased>
where
    S: Service<Req, Response = Resp> + Clone + Send + 'static,
    S::Future: Send + 'static,
    S::Error: 'static,
    M: Fn(S::Error) -> EOut + Clone + Send + 'static,
{
    Box::new(Wrap { svc, map })
}

/// A type-erased middleware used as the inner service of another one.
pub struct ErasedSvc(pub Box<dyn Erased>);

impl Clone for ErasedSvc {
    fn clone(&self) -> Self {
        ErasedSvc(self.0.clone_box())
    }
}

pub const LAYER_ERR_KIND: u8 = 200;

impl Service<Req> for ErasedSvc {
    type Response = Resp;
    type Error = InnerErr;
    type Future = BoxFuture<'static, Result<Resp, InnerErr>>;
    fn poll_ready(&mut self, cx: &mut Context<'_>) -> Poll<Result<(), InnerErr>> {
        self.0.poll_ready(cx).map_err(flatten)
    }
    fn call(&mut self, req: Req) -> Self::Future {
        let f = self.0.call(req);
        Box::pin(async move { f.await.map_err(flatten) })
    }
}

fn flatten(e: EOut) -> InnerErr {
    match e {
        EOut::PassThrough(e) => e,
        EOut::Layer(_) => InnerErr { id: 0, kind: LAYER_ERR_KIND },
    }
}

#[derive(Default)]
pub struct ProbeLog {
    /// (probe level, request id) of every call seen
    pub calls: Vec<(String, u32)>,
    pub violations: Vec<String>,
    pub next_instance: u32,
}

/// Forwards everything and checks the Tower readiness contract of whoever calls it: every
/// `call` must go to an instance on which `poll_ready` returned `Ready(Ok)` since that
/// instance's previous call; a clone starts not ready.
pub struct Probe<S> {
    inner: S,
    pub log: Arc<Mutex<ProbeLog>>,
    level: String,
    instance: u32,
    ready: bool,
}

impl<S> Probe<S> {
    pub fn new(inner: S, log: Arc<Mutex<ProbeLog>>, level: &str) -> Self {
        Probe { inner, log, level: level.to_string(), instance: 0, ready: false }
    }
}

impl<S: Clone> Clone for Probe<S> {
    fn clone(&self) -> Self {
        let mut g = self.log.lock().unwrap();
        g.next_instance += 1;
        let instance = g.next_instance;
        drop(g);
        Probe { inner: self.inner.clone(), log: self.log.clone(), level: self.level.clone(), instance, ready: false }
    }
}

impl<S> Service<Req> for Probe<S>
where
    S: Service<Req, Response = Resp, Error = InnerErr>,
{
    type Response = Resp;
    type Error = InnerErr;
    type Future = S::Future;
    fn poll_ready(&mut self, cx: &mut Context<'_>) -> Poll<Result<(), InnerErr>> {
        let r = self.inner.poll_ready(cx);
        if let Poll::Ready(Ok(())) = &r {
            self.ready = true;
        }
        r
    }
    fn call(&mut self, req: Req) -> Self::Future {
        {
            let mut g = self.log.lock().unwrap();
            g.calls.push((self.level.clone(), req.id));
            if !self.ready {
                g.violations.push(format!("{}: call for request {} on instance {} which has not observed readiness since its previous call", self.level, req.id, self.instance));
            }
        }
        self.ready = false;
        self.inner.call(req)
    }
}
