//! The thirteen middleware in non-triggering (and three call-multiplying) configurations,
//! each erased to `Box<dyn Erased>`.

use crate::erased::{erase, EOut, Erased};
use std::sync::{Arc, Mutex};
use std::time::Duration;
use tower::{Layer, Service};
use trv_core::inner::{InnerErr, Req, Resp};

#[derive(Clone, Copy, Debug, PartialEq, Eq, Hash, PartialOrd, Ord)]
pub enum Mw {
    Bulkhead,
    RateLimiter,
    CircuitBreaker,
    CircuitBreakerWithFallback,
    Retry,
    TimeLimiter,
    TimeLimiterBackground,
    Cache,
    Fallback,
    Hedge,
    Reconnect,
    Adaptive,
    Coalesce,
    Executor,
    Chaos,
}

pub const ALL: [Mw; 15] = [
    Mw::Bulkhead,
    Mw::RateLimiter,
    Mw::CircuitBreaker,
    Mw::CircuitBreakerWithFallback,
    Mw::Retry,
    Mw::TimeLimiter,
    Mw::TimeLimiterBackground,
    Mw::Cache,
    Mw::Fallback,
    Mw::Hedge,
    Mw::Reconnect,
    Mw::Adaptive,
    Mw::Coalesce,
    Mw::Executor,
    Mw::Chaos,
];

impl Mw {
    pub fn name(&self) -> &'static str {
        match self {
            Mw::Bulkhead => "bulkhead",
            Mw::RateLimiter => "ratelimiter",
            Mw::CircuitBreaker => "circuitbreaker",
            Mw::CircuitBreakerWithFallback => "circuitbreaker_with_fallback",
            Mw::Retry => "retry",
            Mw::TimeLimiter => "timelimiter",
            Mw::TimeLimiterBackground => "timelimiter_background",
            Mw::Cache => "cache",
            Mw::Fallback => "fallback",
            Mw::Hedge => "hedge",
            Mw::Reconnect => "reconnect",
            Mw::Adaptive => "adaptive",
            Mw::Coalesce => "coalesce",
            Mw::Executor => "executor",
            Mw::Chaos => "chaos",
        }
    }
    pub fn has_listeners(&self) -> bool {
        !matches!(self, Mw::Reconnect | Mw::Adaptive | Mw::Coalesce | Mw::Executor)
    }
    pub fn can_multiply(&self) -> bool {
        matches!(self, Mw::Retry | Mw::Hedge | Mw::Reconnect)
    }
}

#[derive(Clone, Copy, Debug, PartialEq, Eq)]
pub enum Mode {
    /// protective condition not triggered: exactly one inner call per request
    Plain,
    /// retry with 2 attempts / hedge with 2 parallel attempts / reconnect with 1 retry
    Multiply,
    /// the same with the other timing: retry and reconnect with a *zero* backoff, hedge in
    /// latency mode (1 ms delay)
    MultiplyAlt,
    /// non-triggering, but with extreme-yet-valid settings (Duration::MAX timeouts, waits,
    /// delays and TTLs, very large limits): "never" must really mean never, not a panic
    Extreme,
}

pub struct Listeners {
    pub logs: [Arc<Mutex<Vec<String>>>; 3],
    pub panics: [bool; 3],
    /// events delivered while the delivering thread held one of the layer's (instrumented,
    /// blocking) locks: a listener that looks into the same layer would deadlock there
    pub inside_lock: Arc<Mutex<Vec<String>>>,
    /// every delivery takes this long (ms of wall time passing inside the poll, see
    /// trv_core::clock::burn): a listener that logs synchronously to a slow sink
    pub slow_ms: u64,
}

impl Listeners {
    pub fn new(panics: [bool; 3]) -> Arc<Listeners> {
        Arc::new(Listeners { logs: [Default::default(), Default::default(), Default::default()], panics, inside_lock: Default::default(), slow_ms: 0 })
    }
    pub fn slow(ms: u64) -> Arc<Listeners> {
        Arc::new(Listeners { logs: [Default::default(), Default::default(), Default::default()], panics: [false; 3], inside_lock: Default::default(), slow_ms: ms })
    }
    pub fn hook(self: &Arc<Self>, i: usize) -> impl Fn(&str) + Send + Sync + Clone + 'static {
        let me = self.clone();
        move |ev: &str| {
            me.logs[i].lock().unwrap().push(ev.to_string());
            if tower_resilience_core::verif::sync::locks_held() > 0 {
                me.inside_lock.lock().unwrap().push(ev.to_string());
            }
            if me.slow_ms > 0 {
                trv_core::clock::burn(Duration::from_millis(me.slow_ms));
            }
            if me.panics[i] {
                panic!("listener {i} panics on purpose");
            }
        }
    }
}

pub trait Inner: Service<Req, Response = Resp, Error = InnerErr, Future = Self::Fut> + Clone + Send + 'static {
    type Fut: Send + 'static;
}
impl<S> Inner for S
where
    S: Service<Req, Response = Resp, Error = InnerErr> + Clone + Send + 'static,
    S::Future: Send + 'static,
{
    type Fut = S::Future;
}

fn map_std_err<E: std::error::Error + 'static>(e: E, pass_prefixes: &[&str]) -> EOut {
    let text = e.to_string();
    let mut cur: Option<&(dyn std::error::Error + 'static)> = Some(&e);
    let mut found = None;
    while let Some(x) = cur {
        if let Some(i) = x.downcast_ref::<InnerErr>() {
            found = Some(i.clone());
            break;
        }
        cur = x.source();
    }
    match found {
        Some(i) if pass_prefixes.iter().any(|p| text.starts_with(p)) => EOut::PassThrough(i),
        _ => EOut::Layer(text),
    }
}

pub fn build<S: Inner>(mw: Mw, mode: Mode, inner: S, ls: Option<Arc<Listeners>>) -> Box<dyn Erased> {
    match mw {
        Mw::Bulkhead => {
            use tower_resilience_bulkhead::{BulkheadLayer, BulkheadServiceError};
            let mut b = BulkheadLayer::builder().max_concurrent_calls(10);
            if mode == Mode::Extreme {
                b = b.max_concurrent_calls(1_000_000).max_wait_duration(Duration::MAX);
            }
            if let Some(ls) = &ls {
                for i in 0..3 {
                    let (h1, h2, h3) = (ls.hook(i), ls.hook(i), ls.hook(i));
                    b = b.on_call_permitted(move |_| h1("permitted")).on_call_finished(move |_| h2("finished")).on_call_failed(move |_| h3("failed"));
                }
            }
            erase(b.build().layer(inner), |e| match e {
                BulkheadServiceError::Inner(e) => EOut::PassThrough(e),
                BulkheadServiceError::Bulkhead(b) => EOut::Layer(b.to_string()),
            })
        }
        Mw::RateLimiter => {
            use tower_resilience_ratelimiter::{RateLimiterLayer, RateLimiterServiceError};
            let mut b = RateLimiterLayer::builder().limit_for_period(1000).refresh_period(Duration::from_secs(1)).timeout_duration(Duration::ZERO);
            if mode == Mode::Extreme {
                b = b.limit_for_period(1_000_000).refresh_period(Duration::from_secs(86_400 * 365)).timeout_duration(Duration::MAX);
            }
            if let Some(ls) = &ls {
                for i in 0..3 {
                    let (h1, h2) = (ls.hook(i), ls.hook(i));
                    b = b.on_permit_acquired(move |_| h1("acquired")).on_permit_rejected(move |_| h2("rejected"));
                }
            }
            erase(b.build().layer(inner), |e| match e {
                RateLimiterServiceError::Inner(e) => EOut::PassThrough(e),
                RateLimiterServiceError::RateLimited => EOut::Layer("rate limited".into()),
            })
        }
        Mw::CircuitBreaker | Mw::CircuitBreakerWithFallback => {
            use tower_resilience_circuitbreaker::{CircuitBreakerError, CircuitBreakerLayer};
            let mut b = CircuitBreakerLayer::builder().sliding_window_size(100).failure_rate_threshold(0.9);
            if mode == Mode::Extreme {
                b = b.sliding_window_size(1_000_000).wait_duration_in_open(Duration::MAX).slow_call_duration_threshold(Duration::MAX).permitted_calls_in_half_open(usize::MAX);
            }
            if let Some(ls) = &ls {
                // (listener runs: slow-call detection is on, far above anything the calls take)
                if mode != Mode::Extreme {
                    // (time-based window, evaluated from the first call on)
                    b = b
                        .sliding_window_type(tower_resilience_circuitbreaker::SlidingWindowType::TimeBased)
                        .sliding_window_duration(Duration::from_secs(3600))
                        .slow_call_duration_threshold(Duration::from_millis(500))
                        .slow_call_rate_threshold(0.5)
                        .minimum_number_of_calls(1);
                }
                for i in 0..3 {
                    let (h1, h2, h3) = (ls.hook(i), ls.hook(i), ls.hook(i));
                    b = b.on_call_permitted(move |_| h1("permitted")).on_success(move |_| h2("success")).on_failure(move |_| h3("failure"));
                }
            }
            let m = |e| match e {
                CircuitBreakerError::Inner(e) => EOut::PassThrough(e),
                CircuitBreakerError::OpenCircuit => EOut::Layer("open".into()),
            };
            let svc = b.build().layer_fn(inner);
            if mw == Mw::CircuitBreakerWithFallback {
                erase(
                    svc.with_fallback(|r: Req| -> futures::future::BoxFuture<'static, Result<Resp, InnerErr>> {
                        Box::pin(async move { Ok(Resp { serial: 900_000, req: r.id, key: r.key }) })
                    }),
                    m,
                )
            } else {
                erase(svc, m)
            }
        }
        Mw::Retry => {
            use tower_resilience_retry::RetryLayer;
            let mut b = RetryLayer::<Req, InnerErr>::builder().fixed_backoff(Duration::from_millis(1));
            b = match mode {
                Mode::Plain => b.max_attempts(1),
                Mode::Multiply => b.max_attempts(2),
                Mode::MultiplyAlt => b.max_attempts(2).fixed_backoff(Duration::ZERO),
                Mode::Extreme => b.max_attempts(usize::MAX).fixed_backoff(Duration::MAX).retry_on(|_e: &InnerErr| false),
            };
            if let Some(ls) = &ls {
                for i in 0..3 {
                    let (h1, h2, h3) = (ls.hook(i), ls.hook(i), ls.hook(i));
                    b = b.on_retry(move |_, _| h1("retry")).on_success(move |_| h2("success")).on_error(move |_| h3("error"));
                }
            }
            erase(b.build().layer(inner), EOut::PassThrough)
        }
        Mw::TimeLimiter | Mw::TimeLimiterBackground => {
            use tower_resilience_timelimiter::{TimeLimiterError, TimeLimiterLayer};
            let mut b = TimeLimiterLayer::builder().timeout_duration(if mode == Mode::Extreme { Duration::MAX } else { Duration::from_secs(10) }).cancel_running_future(mw == Mw::TimeLimiter);
            if let Some(ls) = &ls {
                for i in 0..3 {
                    let (h1, h2) = (ls.hook(i), ls.hook(i));
                    b = b.on_success(move |_| h1("success")).on_error(move |_| h2("error"));
                }
            }
            erase(b.build().layer(inner), |e| match e {
                TimeLimiterError::Inner(e) => EOut::PassThrough(e),
                TimeLimiterError::Timeout => EOut::Layer("timeout".into()),
            })
        }
        Mw::Cache => {
            use tower_resilience_cache::{CacheError, CacheLayer};
            let mut b = CacheLayer::<Req, u32>::builder().max_size(100).key_extractor(|r: &Req| r.id);
            if mode == Mode::Extreme {
                b = b.max_size(50_000).ttl(Duration::MAX);
            }
            if let Some(ls) = &ls {
                for i in 0..3 {
                    let (h1, h2) = (ls.hook(i), ls.hook(i));
                    b = b.on_hit(move || h1("hit")).on_miss(move || h2("miss"));
                }
            }
            erase(b.build().layer(inner), |e| match e {
                CacheError::Inner(e) => EOut::PassThrough(e),
            })
        }
        Mw::Fallback => {
            use tower_resilience_fallback::{FallbackError, FallbackLayer};
            // (the second configuration: an error-transforming strategy whose predicate refuses
            // everything - refused errors come back untransformed)
            let mut b = if mode == Mode::Extreme {
                FallbackLayer::<Req, Resp, InnerErr>::builder().exception(|e: InnerErr| InnerErr { id: e.id + 5_000, kind: 9 }).handle(|_e: &InnerErr| false)
            } else {
                FallbackLayer::<Req, Resp, InnerErr>::builder().value(Resp { serial: 777_000, req: 0, key: 0 }).handle(|_e: &InnerErr| false)
            };
            if let Some(ls) = &ls {
                for i in 0..3 {
                    let h = ls.hook(i);
                    b = b.on_event(move |e| h(&format!("{:?}", e).split(|c: char| !c.is_alphanumeric()).next().unwrap_or("").to_string()));
                }
            }
            erase(b.build().layer(inner), |e| match e {
                FallbackError::Inner(e) => EOut::PassThrough(e),
                FallbackError::FallbackFailed(e) => EOut::Layer(format!("fallback failed {e}")),
            })
        }
        Mw::Hedge => {
            use tower_resilience_core::FnListener;
            use tower_resilience_hedge::{HedgeError, HedgeEvent, HedgeLayer};
            let mut b = HedgeLayer::builder().no_delay();
            b = match mode {
                Mode::Plain => b.max_hedged_attempts(1),
                Mode::Multiply => b.max_hedged_attempts(2),
                Mode::MultiplyAlt => b.delay(Duration::from_millis(1)).max_hedged_attempts(2),
                // a hedge that is never due: the primary's answer is the answer
                Mode::Extreme => b.delay(Duration::MAX).max_hedged_attempts(1),
            };
            if let Some(ls) = &ls {
                for i in 0..3 {
                    let h = ls.hook(i);
                    b = b.on_event(FnListener::new(move |e: &HedgeEvent| h(&format!("{:?}", e).split(|c: char| !c.is_alphanumeric()).next().unwrap_or("").to_string())));
                }
            }
            // an inner error reaches the caller as AllAttemptsFailed(e) (all = the one attempt):
            // both variants carry the inner error unchanged
            erase(b.build().layer(inner), |e| match e {
                HedgeError::Inner(e) => EOut::PassThrough(e),
                HedgeError::AllAttemptsFailed(e) => EOut::PassThrough(e),
            })
        }
        Mw::Reconnect => {
            use tower_resilience_reconnect::{ReconnectConfig, ReconnectLayer, ReconnectPolicy};
            let cfg = match mode {
                Mode::Plain => ReconnectConfig::builder().policy(ReconnectPolicy::fixed(Duration::from_millis(1))).max_attempts(1).reconnect_predicate(|_e: &dyn std::error::Error| false).build(),
                Mode::Multiply => ReconnectConfig::builder().policy(ReconnectPolicy::fixed(Duration::from_millis(1))).max_attempts(1).build(),
                Mode::MultiplyAlt => ReconnectConfig::builder().policy(ReconnectPolicy::fixed(Duration::ZERO)).max_attempts(2).build(),
                Mode::Extreme => ReconnectConfig::builder().policy(ReconnectPolicy::fixed(Duration::MAX)).max_attempts(u32::MAX).reconnect_predicate(|_e: &dyn std::error::Error| false).build(),
            };
            // (ReconnectConfig's Clone is written by hand: the configurations with a predicate go
            // through a clone of the configuration, as an application configuring two backends
            // from one template does)
            let cfg = if matches!(mode, Mode::Plain | Mode::Extreme) { cfg.clone() } else { cfg };
            erase(ReconnectLayer::new(cfg).layer(inner), |e| map_std_err(e, &["service error", "max reconnection attempts", "connection failed"]))
        }
        Mw::Adaptive => {
            use tower_resilience_adaptive::{AdaptiveError, AdaptiveLimiterLayer, Aimd};
            let a = if mode == Mode::Extreme {
                Aimd::builder().initial_limit(10).min_limit(1).max_limit(1_000_000).latency_threshold(Duration::MAX).build()
            } else {
                Aimd::builder().initial_limit(10).min_limit(5).max_limit(20).build()
            };
            erase(AdaptiveLimiterLayer::new(a).layer(inner), |e| match e {
                AdaptiveError::Service(e) => EOut::PassThrough(e),
                AdaptiveError::LimitReached => EOut::Layer("limit".into()),
            })
        }
        Mw::Coalesce => {
            use tower_resilience_coalesce::{CoalesceError, CoalesceLayer};
            erase(CoalesceLayer::new(|r: &Req| r.id).layer(inner), |e| match e {
                CoalesceError::Service(e) => EOut::PassThrough(e),
                other => EOut::Layer(format!("{other:?}")),
            })
        }
        Mw::Executor => {
            use tower_resilience_executor::ExecutorLayer;
            erase(ExecutorLayer::current().layer(inner), |e| map_std_err(e, &["service error"]))
        }
        Mw::Chaos => {
            use tower_resilience_chaos::ChaosLayer;
            let mut b = ChaosLayer::builder().error_rate(0.0).error_fn(|_r: &Req| InnerErr { id: 4242, kind: 7 }).latency_rate(0.0).seed(1);
            if mode == Mode::Extreme {
                b = b.seed(u64::MAX).min_latency(Duration::MAX).max_latency(Duration::MAX);
            }
            if let Some(ls) = &ls {
                for i in 0..3 {
                    let (h1, h2) = (ls.hook(i), ls.hook(i));
                    b = b.on_passed_through(move || h1("passed")).on_error_injected(move || h2("injected"));
                }
            }
            erase(b.build().layer(inner), EOut::PassThrough)
        }
    }
}
