//! Listener-panic subsets on *triggering* configurations: every event kind a layer can emit
//! (rejections, state transitions, timeouts, evictions, injected faults, hedges, retries, ...)
//! is produced with 3 listeners registered on every hook, for all 8 subsets of panicking
//! listeners; outcomes and every listener's event sequence must equal the no-panic run's.

use crate::erased::{erase, EOut, Erased};
use crate::mw::{Listeners, Mw};
use crate::{Ctx, Seen};
use serde_json::json;
use std::sync::Arc;
use std::time::Duration;
use tower::Layer;
use trv_core::inner::{GatedInner, InnerErr, Mode as InnerMode, Out, Plan, Req, Resp};
use trv_core::world::World;

/// (inner plans, requests issued together?) per step
struct Step {
    plans: Vec<Plan>,
    /// issue this many requests concurrently (join) in this step
    concurrent: usize,
    /// advance virtual time before the step
    wait_ms: u64,
    key: u8,
}

fn step(plans: Vec<Plan>) -> Step {
    Step { plans, concurrent: 1, wait_ms: 0, key: 1 }
}

fn build_trigger(m: Mw, inner: GatedInner, ls: &Arc<Listeners>) -> Option<(Box<dyn Erased>, Vec<Step>)> {
    let ok = || Plan::now(Out::Ok);
    let err = |k: u8| Plan::now(Out::Err(k));
    match m {
        Mw::Bulkhead => {
            use tower_resilience_bulkhead::{BulkheadLayer, BulkheadServiceError};
            let mut b = BulkheadLayer::builder().max_concurrent_calls(1).reject_when_full();
            for i in 0..3 {
                let (h1, h2, h3, h4) = (ls.hook(i), ls.hook(i), ls.hook(i), ls.hook(i));
                b = b.on_call_permitted(move |_| h1("permitted")).on_call_rejected(move |_| h2("rejected")).on_call_finished(move |_| h3("finished")).on_call_failed(move |_| h4("failed"));
            }
            let svc = erase(b.build().layer(inner), |e| match e {
                BulkheadServiceError::Inner(e) => EOut::PassThrough(e),
                BulkheadServiceError::Bulkhead(b) => EOut::Layer(b.to_string()),
            });
            Some((svc, vec![Step { plans: vec![Plan::after(20, Out::Ok), ok()], concurrent: 2, wait_ms: 0, key: 1 }, step(vec![err(0)]), step(vec![ok()])]))
        }
        Mw::RateLimiter => {
            use tower_resilience_ratelimiter::{RateLimiterLayer, RateLimiterServiceError};
            let mut b = RateLimiterLayer::builder().limit_for_period(1).refresh_period(Duration::from_millis(50)).timeout_duration(Duration::ZERO);
            for i in 0..3 {
                let (h1, h2, h3) = (ls.hook(i), ls.hook(i), ls.hook(i));
                b = b.on_permit_acquired(move |_| h1("acquired")).on_permit_rejected(move |_| h2("rejected")).on_permits_refreshed(move |_| h3("refreshed"));
            }
            let svc = erase(b.build().layer(inner), |e| match e {
                RateLimiterServiceError::Inner(e) => EOut::PassThrough(e),
                RateLimiterServiceError::RateLimited => EOut::Layer("rate limited".into()),
            });
            Some((svc, vec![step(vec![ok()]), step(vec![ok()]), Step { plans: vec![ok()], concurrent: 1, wait_ms: 60, key: 1 }]))
        }
        Mw::CircuitBreaker => {
            use tower_resilience_circuitbreaker::{CircuitBreakerError, CircuitBreakerLayer};
            let mut b = CircuitBreakerLayer::builder()
                .sliding_window_size(2)
                .minimum_number_of_calls(2)
                .failure_rate_threshold(0.5)
                .wait_duration_in_open(Duration::from_millis(10))
                .slow_call_duration_threshold(Duration::from_millis(5))
                .slow_call_rate_threshold(1.0);
            for i in 0..3 {
                let (h1, h2, h3, h4, h5, h6) = (ls.hook(i), ls.hook(i), ls.hook(i), ls.hook(i), ls.hook(i), ls.hook(i));
                b = b
                    .on_call_permitted(move |_| h1("permitted"))
                    .on_call_rejected(move || h2("rejected"))
                    .on_success(move |_| h3("success"))
                    .on_failure(move |_| h4("failure"))
                    .on_state_transition(move |f, t| h5(&format!("transition {f:?}->{t:?}")))
                    .on_slow_call(move |_| h6("slow"));
            }
            let svc = erase(b.build().layer_fn(inner), |e| match e {
                CircuitBreakerError::Inner(e) => EOut::PassThrough(e),
                CircuitBreakerError::OpenCircuit => EOut::Layer("open".into()),
            });
            Some((svc, vec![step(vec![err(0)]), step(vec![err(0)]), step(vec![ok()]), Step { plans: vec![Plan::after(8, Out::Ok)], concurrent: 1, wait_ms: 20, key: 1 }, step(vec![ok()])]))
        }
        Mw::Retry => {
            use tower_resilience_retry::{RetryBudgetBuilder, RetryLayer};
            let budget = RetryBudgetBuilder::new().token_bucket().max_tokens(1).initial_tokens(1).build();
            let mut b = RetryLayer::<Req, InnerErr>::builder().max_attempts(3).fixed_backoff(Duration::from_millis(1)).retry_on(|e: &InnerErr| e.kind == 0).budget(budget);
            for i in 0..3 {
                let (h1, h2, h3, h4, h5) = (ls.hook(i), ls.hook(i), ls.hook(i), ls.hook(i), ls.hook(i));
                b = b.on_retry(move |_, _| h1("retry")).on_success(move |_| h2("success")).on_error(move |_| h3("error")).on_ignored_error(move || h4("ignored")).on_budget_exhausted(move |_| h5("budget_exhausted"));
            }
            let svc = erase(b.build().layer(inner), EOut::PassThrough);
            // retry+success (uses the token, success refunds it), ignored error, retry until exhausted budget
            Some((svc, vec![step(vec![err(0), ok()]), step(vec![err(1)]), step(vec![err(0), err(0), err(0)]), step(vec![err(0), err(0)])]))
        }
        Mw::TimeLimiter | Mw::TimeLimiterBackground => {
            use tower_resilience_timelimiter::{TimeLimiterError, TimeLimiterLayer};
            let mut b = TimeLimiterLayer::builder().timeout_duration(Duration::from_millis(10)).cancel_running_future(m == Mw::TimeLimiter);
            for i in 0..3 {
                let (h1, h2, h3) = (ls.hook(i), ls.hook(i), ls.hook(i));
                b = b.on_success(move |_| h1("success")).on_error(move |_| h2("error")).on_timeout(move || h3("timeout"));
            }
            let svc = erase(b.build().layer(inner), |e| match e {
                TimeLimiterError::Inner(e) => EOut::PassThrough(e),
                TimeLimiterError::Timeout => EOut::Layer("timeout".into()),
            });
            Some((svc, vec![step(vec![ok()]), step(vec![Plan::after(50, Out::Ok)]), step(vec![err(0)])]))
        }
        Mw::Cache => {
            use tower_resilience_cache::{CacheError, CacheLayer};
            let mut b = CacheLayer::<Req, u8>::builder().max_size(1).key_extractor(|r: &Req| r.key);
            for i in 0..3 {
                let (h1, h2, h3) = (ls.hook(i), ls.hook(i), ls.hook(i));
                b = b.on_hit(move || h1("hit")).on_miss(move || h2("miss")).on_eviction(move || h3("eviction"));
            }
            let svc = erase(b.build().layer(inner), |e| match e {
                CacheError::Inner(e) => EOut::PassThrough(e),
            });
            Some((svc, vec![Step { plans: vec![ok()], concurrent: 1, wait_ms: 0, key: 1 }, Step { plans: vec![ok()], concurrent: 1, wait_ms: 0, key: 2 }, Step { plans: vec![ok()], concurrent: 1, wait_ms: 0, key: 2 }]))
        }
        Mw::Fallback => {
            use tower_resilience_fallback::{FallbackError, FallbackLayer};
            let mut b = FallbackLayer::<Req, Resp, InnerErr>::builder().value(Resp { serial: 777_000, req: 0, key: 0 }).handle(|e: &InnerErr| e.kind == 0);
            for i in 0..3 {
                let h = ls.hook(i);
                b = b.on_event(move |e| h(&format!("{:?}", e).split(|c: char| !c.is_alphanumeric()).next().unwrap_or("").to_string()));
            }
            let svc = erase(b.build().layer(inner), |e| match e {
                FallbackError::Inner(e) => EOut::PassThrough(e),
                FallbackError::FallbackFailed(e) => EOut::Layer(format!("fallback failed {e}")),
            });
            Some((svc, vec![step(vec![ok()]), step(vec![err(0)]), step(vec![err(1)])]))
        }
        Mw::Hedge => {
            use tower_resilience_core::FnListener;
            use tower_resilience_hedge::{HedgeError, HedgeEvent, HedgeLayer};
            let mut b = HedgeLayer::builder().delay(Duration::from_millis(10)).max_hedged_attempts(2);
            for i in 0..3 {
                let h = ls.hook(i);
                b = b.on_event(FnListener::new(move |e: &HedgeEvent| h(&format!("{:?}", e).split(|c: char| !c.is_alphanumeric()).next().unwrap_or("").to_string())));
            }
            let svc = erase(b.build().layer(inner), |e| match e {
                HedgeError::Inner(e) => EOut::PassThrough(e),
                HedgeError::AllAttemptsFailed(e) => EOut::Layer(format!("all failed {}", e.kind)),
            });
            // primary wins; slow primary -> hedge wins; both fail
            Some((svc, vec![step(vec![ok()]), step(vec![Plan::after(50, Out::Ok), ok()]), step(vec![Plan::after(20, Out::Err(0)), err(0)])]))
        }
        Mw::Chaos => {
            use tower_resilience_chaos::ChaosLayer;
            let mut b = ChaosLayer::builder().error_rate(0.5).error_fn(|_r: &Req| InnerErr { id: 4242, kind: 7 }).latency_rate(0.5).min_latency(Duration::from_millis(5)).max_latency(Duration::from_millis(9)).seed(7);
            for i in 0..3 {
                let (h1, h2, h3) = (ls.hook(i), ls.hook(i), ls.hook(i));
                b = b.on_passed_through(move || h1("passed")).on_error_injected(move || h2("injected")).on_latency_injected(move |_| h3("latency"));
            }
            let svc = erase(b.build().layer(inner), |e: InnerErr| if e.id == 4242 { EOut::Layer("injected".into()) } else { EOut::PassThrough(e) });
            Some((svc, (0..10).map(|_| step(vec![ok()])).collect()))
        }
        _ => None,
    }
}

pub fn run(ctx: &mut Ctx) {
    for &m in crate::mw::ALL.iter() {
        let mut baseline: Option<(Vec<String>, Vec<Vec<String>>)> = None;
        let mut kinds_seen = std::collections::BTreeSet::new();
        for subset in 0..8u8 {
            let panics = [subset & 1 != 0, subset & 2 != 0, subset & 4 != 0];
            let ls = Listeners::new(panics);
            let w = World::new(0, 10, InnerMode::Script, 1);
            let Some((mut svc, steps)) = build_trigger(m, GatedInner::new(w.inner.clone()), &ls) else { break };
            let mut outcomes = vec![];
            let mut next_id = 50u32;
            for st in steps.iter() {
                if st.wait_ms > 0 {
                    w.block_on(async { tokio::time::sleep(Duration::from_millis(st.wait_ms)).await });
                }
                {
                    let mut g = w.inner.lock().unwrap();
                    g.script.clear();
                    for p in &st.plans {
                        g.script.push_back(*p);
                    }
                    g.default_plan = Plan::now(Out::Ok);
                }
                let mut seen: Vec<Seen> = vec![];
                if st.concurrent <= 1 {
                    next_id += 1;
                    seen.push(crate::drive(&w, &mut svc, Req::new(next_id, st.key)));
                } else {
                    // issue the requests together on clones
                    let mut clones: Vec<Box<dyn Erased>> = (0..st.concurrent).map(|_| svc.clone_box()).collect();
                    let reqs: Vec<Req> = (0..st.concurrent)
                        .map(|_| {
                            next_id += 1;
                            Req::new(next_id, st.key)
                        })
                        .collect();
                    let r = std::panic::catch_unwind(std::panic::AssertUnwindSafe(|| {
                        w.block_on(async {
                            let mut futs = vec![];
                            for (c, r) in clones.iter_mut().zip(reqs.iter()) {
                                let ready = futures::future::poll_fn(|cx| c.poll_ready(cx)).await;
                                futs.push(match ready {
                                    Ok(()) => Some(c.call(r.clone())),
                                    Err(_) => None,
                                });
                            }
                            let mut out = vec![];
                            let res = futures::future::join_all(futs.into_iter().map(|f| async move {
                                match f {
                                    Some(f) => Some(f.await),
                                    None => None,
                                }
                            }))
                            .await;
                            for r in res {
                                out.push(match r {
                                    Some(Ok(r)) => Seen::Ok(r),
                                    Some(Err(e)) => Seen::Err(e),
                                    None => Seen::ReadinessErr(EOut::Layer("not ready".into())),
                                });
                            }
                            out
                        })
                    }));
                    match r {
                        Ok(v) => seen.extend(v),
                        Err(_) => seen.push(Seen::Panicked("panic".into())),
                    }
                }
                ctx.rep.evaluations += seen.len() as u64;
                for s in seen {
                    outcomes.push(match s {
                        Seen::Ok(r) => format!("ok({})", if r.serial >= 700_000 { "fallback".to_string() } else { "inner".to_string() }),
                        Seen::Err(EOut::PassThrough(e)) => format!("pass_through_err(kind {})", e.kind),
                        Seen::Err(EOut::Layer(t)) => format!("layer_err({t})"),
                        other => format!("{other:?}"),
                    });
                }
            }
            // let background tasks (time limiter background mode, hedges) finish
            w.block_on(async { tokio::time::sleep(Duration::from_millis(200)).await });
            // the readiness contract also holds on the triggering paths (rejections, open and
            // half-open breaker, timeouts, retries, hedges, ...)
            if subset == 0 {
                let g = w.inner.lock().unwrap();
                for v in g.contract_violations.iter() {
                    ctx.viol("call_on_unpolled_instance", &format!("{}::triggered_path", m.name()), format!("{} triggering configuration", m.name()), json!({"steps": steps.len()}), v.clone());
                }
                ctx.rep.witness("triggered_paths_checked_for_readiness", 1);
            }
            let logs: Vec<Vec<String>> = ls.logs.iter().map(|l| l.lock().unwrap().clone()).collect();
            for l in logs.iter().flatten() {
                kinds_seen.insert(l.clone());
            }
            let config = format!("{} triggering configuration, listeners panicking={:?}", m.name(), panics);
            let site = format!("{}::listeners", m.name());
            // "whatever they do": a listener may look into the layer that calls it (through a
            // clone, a shared store); delivered from inside the layer's blocking lock, such a
            // listener would deadlock and the call that raised the event would never resolve
            if let Some(ev) = ls.inside_lock.lock().unwrap().first() {
                ctx.viol("listener_called_inside_critical_section", &site, config.clone(), json!({"event": ev}), format!("event '{ev}' was delivered while the delivering thread held the layer's lock (a listener that uses the same {} would deadlock)", m.name()));
            }
            ctx.rep.witness("listeners_checked_for_lock_context", 1);
            match &baseline {
                None => baseline = Some((outcomes, logs)),
                Some((bo, bl)) => {
                    if *bo != outcomes {
                        ctx.viol("listener_changed_outcome", &site, config.clone(), json!({"panicking": panics}), format!("outcomes {:?} with panicking listeners, {:?} without", outcomes, bo));
                    }
                    if *bl != logs {
                        ctx.viol("listener_missed_events", &site, config.clone(), json!({"panicking": panics}), format!("event sequences {:?} with panicking listeners, {:?} without", logs, bl));
                    }
                }
            }
            ctx.rep.distinct.insert(config);
        }
        if !kinds_seen.is_empty() {
            ctx.rep.witness("event_kinds_triggered", kinds_seen.len() as u64);
            let e = ctx.rep.extra.entry("listener_event_kinds".into()).or_insert(json!({}));
            e.as_object_mut().unwrap().insert(m.name().to_string(), json!(kinds_seen));
        }
    }
}
