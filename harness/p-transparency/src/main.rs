//! C20 — layers are transparent, honour Tower readiness; listeners only observe
//! (engine C: full finite grids over middleware x inner service kind x readiness x outcomes,
//! listener-panic subsets, recommended stacks and all ordered pairs, with contract probes).

mod erased;
mod mw;
mod stacks;
mod trigger;

use erased::{EOut, Erased, ErasedSvc, Probe, ProbeLog};
use mw::{build, Listeners, Mode, Mw, ALL};
use serde_json::json;
use std::panic::{catch_unwind, AssertUnwindSafe};
use std::sync::{Arc, Mutex};
use trv_core::evidence::{Report, Tier, Violation};
use trv_core::inner::{CallStatus, GatedInner, InnerErr, Mode as InnerMode, Out, Plan, ReadyAns, Req, Resp};
use trv_core::world::World;

trv_core::install_clock_seam!();

#[derive(Clone, Copy, Debug, PartialEq, Eq)]
pub enum Kind {
    Strict,
    Buffer,
    ConcurrencyLimit,
}

#[derive(Clone, Copy, Debug, PartialEq, Eq)]
pub enum Readiness {
    Ready,
    PendingTwice,
    /// the inner service reports a readiness error for the second request
    ErrorOnSecond,
    /// call-multiplying modes only: the second request's first attempt fails, and the instance
    /// polled for its *further* attempt (the retry, the hedge's clone, the reconnect) reports
    /// a readiness error. The call must still resolve - with one of its attempts' results or
    /// with an error - and must not call the instance whose readiness failed.
    ErrorOnFurtherAttempt,
    /// call-multiplying modes only: the instance polled for the further attempt answers
    /// Pending twice before it is ready; the layer has to wait for it
    PendingOnFurtherAttempt,
}

fn box_err_to_inner(e: tower::BoxError) -> InnerErr {
    match e.downcast::<InnerErr>() {
        Ok(i) => *i,
        Err(other) => InnerErr { id: 0, kind: if other.to_string().contains("closed") { 201 } else { 202 } },
    }
}

pub fn build_on_kind(m: Mw, mode: Mode, kind: Kind, base: GatedInner, plog: &Arc<Mutex<ProbeLog>>, ls: Option<Arc<Listeners>>) -> Box<dyn Erased> {
    match kind {
        Kind::Strict => build(m, mode, Probe::new(base, plog.clone(), "innermost"), ls),
        Kind::Buffer => {
            let b = tower::buffer::Buffer::new(base, 8);
            let svc = tower::util::MapErr::new(b, box_err_to_inner as fn(tower::BoxError) -> InnerErr);
            build(m, mode, svc, ls)
        }
        Kind::ConcurrencyLimit => build(m, mode, tower::limit::ConcurrencyLimit::new(base, 8), ls),
    }
}

#[derive(Debug, Clone, PartialEq)]
pub enum Seen {
    Ok(Resp),
    Err(EOut),
    ReadinessErr(EOut),
    Panicked(String),
    /// did not resolve within a virtual day
    Hung,
}

/// Drive one request the way a well-behaved Tower caller does.
pub fn drive(w: &World, svc: &mut Box<dyn Erased>, req: Req) -> Seen {
    let r = catch_unwind(AssertUnwindSafe(|| {
        w.block_on(async {
            let one = async {
                match futures::future::poll_fn(|cx| svc.poll_ready(cx)).await {
                    Err(e) => Seen::ReadinessErr(e),
                    Ok(()) => match svc.call(req).await {
                        Ok(r) => Seen::Ok(r),
                        Err(e) => Seen::Err(e),
                    },
                }
            };
            // the clock is virtual: a call that never resolves runs into this guard at once
            let seen = match tokio::time::timeout(std::time::Duration::from_secs(86_400), one).await {
                Ok(s) => s,
                Err(_) => Seen::Hung,
            };
            // whatever the layer has spawned by now gets to run before the inner call log is read
            for _ in 0..6 {
                tokio::task::yield_now().await;
            }
            seen
        })
    }));
    match r {
        Ok(s) => s,
        Err(p) => Seen::Panicked(p.downcast_ref::<String>().cloned().or_else(|| p.downcast_ref::<&str>().map(|s| s.to_string())).unwrap_or_else(|| "panic".into())),
    }
}

/// Like `drive`, but the caller's task is busy elsewhere: the call future is polled once,
/// then not at all for a (virtual) second - during which whatever the layer spawned or
/// scheduled runs on - and only then to its end.
pub fn drive_late(w: &World, svc: &mut Box<dyn Erased>, req: Req) -> Seen {
    let r = catch_unwind(AssertUnwindSafe(|| {
        w.block_on(async {
            let one = async {
                match futures::future::poll_fn(|cx| svc.poll_ready(cx)).await {
                    Err(e) => Seen::ReadinessErr(e),
                    Ok(()) => {
                        let mut fut = svc.call(req);
                        if let std::task::Poll::Ready(r) = futures::poll!(&mut fut) {
                            return match r {
                                Ok(r) => Seen::Ok(r),
                                Err(e) => Seen::Err(e),
                            };
                        }
                        tokio::time::sleep(std::time::Duration::from_secs(1)).await;
                        match fut.await {
                            Ok(r) => Seen::Ok(r),
                            Err(e) => Seen::Err(e),
                        }
                    }
                }
            };
            let seen = match tokio::time::timeout(std::time::Duration::from_secs(86_400), one).await {
                Ok(s) => s,
                Err(_) => Seen::Hung,
            };
            // whatever the layer has spawned by now gets to run before the inner call log is read
            for _ in 0..6 {
                tokio::task::yield_now().await;
            }
            seen
        })
    }));
    match r {
        Ok(s) => s,
        Err(p) => Seen::Panicked(p.downcast_ref::<String>().cloned().or_else(|| p.downcast_ref::<&str>().map(|s| s.to_string())).unwrap_or_else(|| "panic".into())),
    }
}

/// A caller that polls late must not make the layer call the wrapped service more often, nor
/// change the outcome: every variant, in its plain and call-multiplying configurations, is driven once
/// promptly and once late with the same inner script (the inner service answers at once or after 5 ms).
fn late_poll_grid(ctx: &mut Ctx) {
    for &m in ALL.iter() {
        let modes: Vec<Mode> = if m.can_multiply() { vec![Mode::Plain, Mode::Multiply, Mode::MultiplyAlt] } else { vec![Mode::Plain] };
        for mode in modes {
            for (out, answer_ms) in [(Out::Ok, 5u64), (Out::Err(0), 5), (Out::Ok, 0), (Out::Err(0), 0)] {
                let mut seen: Vec<(String, usize)> = vec![];
                for late in [false, true] {
                    let w = World::new(0, 10, InnerMode::Script, 1);
                    let plog: Arc<Mutex<ProbeLog>> = Default::default();
                    let mut svc = build_on_kind(m, mode, Kind::Strict, GatedInner::new(w.inner.clone()), &plog, None);
                    {
                        let mut g = w.inner.lock().unwrap();
                        g.script.clear();
                        g.default_plan = if answer_ms == 0 { Plan::now(out) } else { Plan::after(answer_ms, out) };
                    }
                    let s = if late { drive_late(&w, &mut svc, Req::new(70, 1)) } else { drive(&w, &mut svc, Req::new(70, 1)) };
                    ctx.rep.evaluations += 1;
                    let sig = match s {
                        Seen::Ok(_) => "ok".to_string(),
                        Seen::Err(EOut::PassThrough(_)) => "pass_through_err".to_string(),
                        other => format!("{other:?}"),
                    };
                    let calls = w.inner.lock().unwrap().calls.len();
                    seen.push((sig, calls));
                }
                let config = format!("{} {:?} inner answers {:?} after {} ms", m.name(), mode, out, answer_ms);
                // (a late caller may legitimately see fewer attempts - a hedge that is not needed any
                // more - but never more, and never another outcome)
                if seen[0].0 != seen[1].0 || seen[1].1 > seen[0].1 {
                    ctx.viol("late_poll_changed_the_call", &format!("{}::late_poll", m.name()), config.clone(), json!({"polled": "once, then not for 1 s"}), format!("prompt caller: {:?} (outcome, inner calls); late caller: {:?}", seen[0], seen[1]));
                }
                ctx.rep.witness("late_polled_call_compared", 1);
                ctx.rep.distinct.insert(config);
            }
        }
    }
}

/// Layers whose plain configuration needs neither a timer nor a spawner on the pinned tree must
/// stay that way: one request is driven by hand (no-op waker) on a thread that has no tokio
/// context at all. `expected` lists, per variant, whether that works today.
fn no_runtime_grid(ctx: &mut Ctx) {
    #[derive(Clone)]
    struct Now;
    impl tower::Service<Req> for Now {
        type Response = Resp;
        type Error = trv_core::inner::InnerErr;
        type Future = std::future::Ready<Result<Resp, trv_core::inner::InnerErr>>;
        fn poll_ready(&mut self, _cx: &mut std::task::Context<'_>) -> std::task::Poll<Result<(), Self::Error>> {
            std::task::Poll::Ready(Ok(()))
        }
        fn call(&mut self, req: Req) -> Self::Future {
            std::future::ready(Ok(Resp { serial: 1, req: req.id, key: req.key }))
        }
    }
    let results: Vec<(Mw, String)> = std::thread::spawn(|| {
        trv_core::quiet_panics();
        ALL.iter()
            .map(|&m| {
                let r = catch_unwind(AssertUnwindSafe(|| {
                    let mut svc = build(m, Mode::Plain, Now, None);
                    let waker = trv_core::ilv::noop_waker();
                    let mut cx = std::task::Context::from_waker(&waker);
                    if !matches!(svc.poll_ready(&mut cx), std::task::Poll::Ready(Ok(()))) {
                        return "not ready".to_string();
                    }
                    let mut fut = svc.call(Req::new(90, 1));
                    for _ in 0..4 {
                        if let std::task::Poll::Ready(r) = std::future::Future::poll(fut.as_mut(), &mut cx) {
                            return if r.is_ok() { "ok".to_string() } else { "error".to_string() };
                        }
                    }
                    "pending".to_string()
                }));
                (m, r.unwrap_or_else(|_| "panicked".to_string()))
            })
            .collect()
    })
    .join()
    .unwrap();
    // what the pinned tree does (a layer that sleeps, spawns or times out needs a runtime)
    let works_without = [Mw::Bulkhead, Mw::RateLimiter, Mw::CircuitBreaker, Mw::CircuitBreakerWithFallback, Mw::Retry, Mw::Cache, Mw::Fallback, Mw::Reconnect, Mw::Adaptive, Mw::Coalesce, Mw::Chaos];
    for (m, got) in results {
        ctx.rep.evaluations += 1;
        if std::env::var("VERIF_DEBUG_NORT").is_ok() {
            eprintln!("no runtime: {} -> {got}", m.name());
        }
        if works_without.contains(&m) && got != "ok" {
            ctx.viol("needs_a_runtime_now", &format!("{}::no_runtime", m.name()), format!("{} Plain, one request driven by hand on a thread without a tokio context", m.name()), json!([]), format!("this layer's plain configuration needed no runtime; now: {got}"));
        }
        ctx.rep.witness("request_driven_without_a_runtime", 1);
    }
}

/// Two runtimes. (a) A layer that has served a request on one runtime serves the next one on
/// another after the first runtime is gone (a stack in a `static` used by several tests, a
/// bootstrap runtime followed by a serving runtime). (b) A call future made under one runtime
/// is driven by another one (the first stays alive but idle). In both cases the outcome and the
/// number of inner calls must be what the same request gives on a single runtime - for the
/// variants for which that is so on the pinned tree (`works`): a layer must not start to cache
/// or capture "its" runtime.
fn two_runtime_grid(ctx: &mut Ctx) {
    fn sig(s: &Seen) -> String {
        match s {
            Seen::Ok(_) => "ok".to_string(),
            Seen::Err(EOut::PassThrough(_)) => "pass_through_err".to_string(),
            other => format!("{other:?}"),
        }
    }
    /// one case on a thread of its own: ((reference outcome, inner calls), (outcome, inner calls))
    fn case(m: Mw, mode: Mode, second_request: bool) -> ((String, usize), (String, usize)) {
        trv_core::quiet_panics();
        let plog: Arc<Mutex<ProbeLog>> = Default::default();
        let wa = World::new(0, 10, InnerMode::Script, 1);
        // (the inner service answers at once: no timer of its own is tied to a runtime)
        wa.inner.lock().unwrap().default_plan = Plan::now(Out::Ok);
        let inner_state = wa.inner.clone();
        let mut svc = build_on_kind(m, mode, Kind::Strict, GatedInner::new(wa.inner.clone()), &plog, None);
        let reference = sig(&drive(&wa, &mut svc, Req::new(80, 1)));
        let ref_calls = inner_state.lock().unwrap().calls.len();
        if second_request {
            drop(wa);
            let wb = World::new(0, 10, InnerMode::Script, 1);
            let s = sig(&drive(&wb, &mut svc, Req::new(81, 1)));
            let n = inner_state.lock().unwrap().calls.len() - ref_calls;
            ((reference, ref_calls), (s, n))
        } else {
            let made = catch_unwind(AssertUnwindSafe(|| {
                let ready = wa.block_on(futures::future::poll_fn(|cx| svc.poll_ready(cx)));
                ready.map(|_| svc.call(Req::new(82, 1)))
            }));
            let got = match made {
                Err(_) => ("panicked in call()".to_string(), 0),
                Ok(Err(_)) => ("readiness error".to_string(), 0),
                Ok(Ok(fut)) => {
                    let wb = World::new(0, 10, InnerMode::Script, 1);
                    let r = catch_unwind(AssertUnwindSafe(|| {
                        wb.block_on(async {
                            let r = match tokio::time::timeout(std::time::Duration::from_secs(86_400), fut).await {
                                Ok(Ok(_)) => "ok".to_string(),
                                Ok(Err(EOut::PassThrough(_))) => "pass_through_err".to_string(),
                                Ok(Err(e)) => format!("{e:?}"),
                                Err(_) => "Hung".to_string(),
                            };
                            for _ in 0..6 {
                                tokio::task::yield_now().await;
                            }
                            r
                        })
                    }));
                    let s = r.unwrap_or_else(|_| "panicked".to_string());
                    drop(wb);
                    (s, inner_state.lock().unwrap().calls.len() - ref_calls)
                }
            };
            ((reference, ref_calls), got)
        }
    }
    for &m in ALL.iter() {
        let modes: Vec<Mode> = if m.can_multiply() { vec![Mode::Plain, Mode::MultiplyAlt] } else { vec![Mode::Plain] };
        for mode in modes {
            for (second_request, shape) in [(true, "second request after the first runtime is gone"), (false, "future made under one runtime, driven by another")] {
                let (tx, rx) = std::sync::mpsc::channel();
                std::thread::spawn(move || {
                    let r = catch_unwind(AssertUnwindSafe(|| case(m, mode, second_request)));
                    let _ = tx.send(r.unwrap_or_else(|_| (("harness panicked".to_string(), 0), ("harness panicked".to_string(), 0))));
                });
                // (a case that blocks for good - a task parked on a runtime nobody drives - is an
                // answer too; its thread is left behind and goes away with the process)
                let ((reference, ref_calls), (got, calls)) = rx.recv_timeout(std::time::Duration::from_secs(20)).unwrap_or_else(|_| (("?".to_string(), 0), ("blocked for good".to_string(), 0)));
                ctx.rep.evaluations += 1;
                let config = format!("{} {:?} two runtimes: {}", m.name(), mode, shape);
                let same = got == reference && calls == ref_calls;
                if std::env::var("VERIF_DEBUG_NORT").is_ok() {
                    eprintln!("{config}: reference ({reference}, {ref_calls}) got ({got}, {calls}) same={same}");
                }
                let exempt = TWO_RUNTIME_EXEMPT.iter().any(|(n, md, sh)| *n == m.name() && *md == format!("{mode:?}") && shape.starts_with(sh));
                if !same && !exempt {
                    ctx.viol("runtime_captured", &format!("{}::two_runtimes", m.name()), config.clone(), json!({"shape": shape}), format!("on one runtime: ({reference}, {ref_calls} inner calls); with two: ({got}, {calls} inner calls)"));
                }
                ctx.rep.witness("request_served_across_two_runtimes", 1);
                ctx.rep.distinct.insert(config);
            }
        }
    }
}

/// (variant, mode, shape prefix) for which the pinned tree itself depends on the runtime that
/// made the call or served the first request
const TWO_RUNTIME_EXEMPT: [(&str, &str, &str); 2] = [
    // the executor layer is configured with the handle of the runtime it offloads to
    ("executor", "Plain", "second request"),
    ("executor", "Plain", "future made"),
];

pub struct Ctx<'a> {
    pub rep: &'a mut Report,
    pub reported: std::collections::BTreeSet<String>,
}

impl<'a> Ctx<'a> {
    pub fn viol(&mut self, kind: &str, site: &str, config: String, history: serde_json::Value, detail: String) {
        if !self.reported.insert(format!("{kind}/{site}")) {
            return;
        }
        self.rep.violations.push(Violation { property: "C20".into(), kind: kind.into(), site: site.into(), config, history, detail, log: vec![] });
    }
}

/// Compare what the caller saw with what the innermost service did, for a run in which
/// every request should reach the inner service exactly `per_request` .. times.
#[allow(clippy::too_many_arguments)]
pub fn judge(ctx: &mut Ctx, site: &str, config: &str, w: &World, plog: &Arc<Mutex<ProbeLog>>, reqs: &[Req], seen: &[Seen], multiply: bool, readiness_err_on: Option<usize>) {
    let g = w.inner.lock().unwrap();
    let hist = json!({"requests": reqs.iter().map(|r| r.id).collect::<Vec<_>>(), "seen": seen.iter().map(|s| format!("{s:?}")).collect::<Vec<_>>()});
    for v in g.contract_violations.iter().chain(plog.lock().unwrap().violations.iter()) {
        ctx.viol("call_on_unpolled_instance", site, config.to_string(), hist.clone(), v.clone());
    }
    for (i, (req, s)) in reqs.iter().zip(seen.iter()).enumerate() {
        let calls: Vec<&trv_core::inner::CallRec> = g.calls.iter().filter(|c| c.req.id == req.id).collect();
        if let Seen::Panicked(p) = s {
            ctx.viol("panic", site, config.to_string(), hist.clone(), format!("request {} panicked: {p}", req.id));
            continue;
        }
        if let Seen::Hung = s {
            ctx.viol("call_never_resolves", site, config.to_string(), hist.clone(), format!("request {} did not resolve within a virtual day", req.id));
            continue;
        }
        if readiness_err_on == Some(i) {
            match s {
                Seen::ReadinessErr(EOut::PassThrough(e)) if e.kind == 5 => {
                    if !calls.is_empty() {
                        ctx.viol("call_after_readiness_error", site, config.to_string(), hist.clone(), format!("request {} reached the inner service although readiness failed", req.id));
                    }
                }
                other => ctx.viol("readiness_error_not_surfaced", site, config.to_string(), hist.clone(), format!("the inner service's readiness error was reported as {other:?}")),
            }
            continue;
        }
        if let Seen::ReadinessErr(e) = s {
            ctx.viol("spurious_readiness_error", site, config.to_string(), hist.clone(), format!("request {}: poll_ready failed with {e:?}", req.id));
            continue;
        }
        if calls.is_empty() {
            ctx.viol("request_not_forwarded", site, config.to_string(), hist.clone(), format!("request {} never reached the inner service (seen {s:?})", req.id));
            continue;
        }
        if calls.iter().any(|c| c.req != *req) {
            ctx.viol("request_changed", site, config.to_string(), hist.clone(), format!("inner saw {:?} for request {:?}", calls[0].req, req));
        }
        if !multiply && calls.len() != 1 {
            ctx.viol("not_exactly_once", site, config.to_string(), hist.clone(), format!("request {} reached the inner service {} times", req.id, calls.len()));
        }
        // the outer result is one of the inner calls' results, unchanged
        let matches = calls.iter().any(|c| match (&c.status, s) {
            (CallStatus::Ok(r), Seen::Ok(r2)) => r == r2,
            (CallStatus::Err(e), Seen::Err(EOut::PassThrough(e2))) => e == e2,
            _ => false,
        });
        // a readiness error met by a *further* attempt may end the call with that error (or
        // with the layer's own error variant) instead of one of the attempts' results
        let further_readiness_err = readiness_err_on == Some(100 + i) && matches!(s, Seen::Err(EOut::Layer(_)) | Seen::Err(EOut::PassThrough(InnerErr { kind: 5, .. })));
        if further_readiness_err {
            ctx.rep.witness("further_attempt_met_readiness_error", 1);
        }
        if !matches && !further_readiness_err {
            ctx.viol(
                "result_changed",
                site,
                config.to_string(),
                hist.clone(),
                format!("request {}: inner results {:?} but the caller saw {s:?}", req.id, calls.iter().map(|c| format!("{:?}", c.status)).collect::<Vec<_>>()),
            );
        }
    }
}

fn single_grid(ctx: &mut Ctx, tier: Tier) {
    for &m in ALL.iter() {
        let modes: Vec<Mode> = if m.can_multiply() { vec![Mode::Plain, Mode::Multiply, Mode::MultiplyAlt, Mode::Extreme] } else { vec![Mode::Plain, Mode::Extreme] };
        for mode in modes {
            for kind in [Kind::Strict, Kind::Buffer, Kind::ConcurrencyLimit] {
                for readiness in [Readiness::Ready, Readiness::PendingTwice, Readiness::ErrorOnSecond, Readiness::ErrorOnFurtherAttempt, Readiness::PendingOnFurtherAttempt] {
                    if matches!(readiness, Readiness::ErrorOnSecond | Readiness::ErrorOnFurtherAttempt) && kind != Kind::Strict {
                        continue; // Buffer turns a readiness error into a closed worker
                    }
                    if matches!(readiness, Readiness::ErrorOnFurtherAttempt | Readiness::PendingOnFurtherAttempt) && !matches!(mode, Mode::Multiply | Mode::MultiplyAlt) {
                        continue;
                    }
                    for outcome_code in 0..tier.pick(4u8, 8) {
                        // per request: inner ok or error (bit i)
                        let outs: Vec<bool> = (0..3).map(|i| outcome_code & (1 << i) == 0).collect();
                        let w = World::new(0, 10, InnerMode::Script, 1);
                        let plog: Arc<Mutex<ProbeLog>> = Default::default();
                        let base = GatedInner::new(w.inner.clone());
                        let mut a = build_on_kind(m, mode, kind, base, &plog, None);
                        let reqs: Vec<Req> = (0..3).map(|i| Req::new(10 + i, (i % 2) as u8 + 1)).collect();
                        let mut seen = vec![];
                        let mut b: Option<Box<dyn Erased>> = None;
                        for (i, req) in reqs.iter().enumerate() {
                            {
                                let mut g = w.inner.lock().unwrap();
                                g.script.clear();
                                g.ready_script.clear();
                                let final_out = if outs[i] { Out::Ok } else { Out::Err(0) };
                                match mode {
                                    Mode::Plain | Mode::Extreme => g.script.push_back(Plan::now(final_out)),
                                    Mode::Multiply | Mode::MultiplyAlt => {
                                        // first attempt fails, a further attempt decides
                                        g.script.push_back(Plan::now(Out::Err(0)));
                                        g.script.push_back(Plan::now(final_out));
                                    }
                                }
                                g.default_plan = Plan::now(final_out);
                                match readiness {
                                    Readiness::Ready => {}
                                    Readiness::PendingTwice => {
                                        g.ready_script.push_back(ReadyAns::Pending);
                                        g.ready_script.push_back(ReadyAns::Pending);
                                    }
                                    Readiness::ErrorOnSecond => {
                                        if i == 1 {
                                            g.ready_script.push_back(ReadyAns::Err(5));
                                        }
                                    }
                                    Readiness::ErrorOnFurtherAttempt => {
                                        if i == 1 {
                                            g.ready_script.push_back(ReadyAns::Ready);
                                            g.ready_script.push_back(ReadyAns::Err(5));
                                        }
                                    }
                                    Readiness::PendingOnFurtherAttempt => {
                                        if i == 1 {
                                            g.ready_script.push_back(ReadyAns::Ready);
                                            g.ready_script.push_back(ReadyAns::Pending);
                                            g.ready_script.push_back(ReadyAns::Pending);
                                        }
                                    }
                                }
                            }
                            let svc = if i == 2 {
                                b = Some(a.clone_box());
                                b.as_mut().unwrap()
                            } else {
                                &mut a
                            };
                            seen.push(drive(&w, svc, req.clone()));
                            ctx.rep.evaluations += 1;
                        }
                        let config = format!("{} mode={:?} inner={:?} readiness={:?} outcomes={:?}", m.name(), mode, kind, readiness, outs);
                        let site = match mode {
                            Mode::Plain => format!("{}::call", m.name()),
                            Mode::Extreme => format!("{}::extreme_configuration", m.name()),
                            Mode::Multiply | Mode::MultiplyAlt => format!("{}::further_attempts", m.name()),
                        };
                        judge(ctx, &site, &config, &w, &plog, &reqs, &seen, matches!(mode, Mode::Multiply | Mode::MultiplyAlt), match readiness { Readiness::ErrorOnSecond => Some(1), Readiness::ErrorOnFurtherAttempt => Some(101), _ => None });
                        let classes: Vec<&str> = seen.iter().map(|s| match s { Seen::Ok(_) => "ok", Seen::Err(EOut::PassThrough(_)) => "pass_through_err", Seen::Err(_) => "layer_err", Seen::ReadinessErr(_) => "readiness_err", Seen::Panicked(_) => "panic", Seen::Hung => "hung" }).collect();
                        ctx.rep.distinct.insert(format!("{config}|{classes:?}"));
                        for c in classes {
                            ctx.rep.witness(c, 1);
                            ctx.rep.outcomes.insert(c.to_string());
                        }
                        if matches!(mode, Mode::Multiply | Mode::MultiplyAlt) && w.inner.lock().unwrap().calls.len() > 3 {
                            ctx.rep.witness("further_attempts_made", 1);
                        }
                        if outcome_code == 2 && kind == Kind::Strict && readiness == Readiness::Ready {
                            ctx.rep.sample(json!({"config": config, "seen": seen.iter().map(|s| format!("{s:?}")).collect::<Vec<_>>()}));
                        }
                        drop(b);
                    }
                }
            }
        }
    }
}

fn listener_grid(ctx: &mut Ctx) {
    for &m in ALL.iter().filter(|m| m.has_listeners()) {
        let mode = if m == Mw::Retry { Mode::Multiply } else { Mode::Plain };
        let mut baseline: Option<(Vec<String>, Vec<Vec<String>>)> = None;
        // subsets 0..8: which of the three listeners panic; 8: none panics, every delivery takes
        // a second (wall time passing inside the poll)
        for subset in 0..9u8 {
            let panics = [subset & 1 != 0, subset & 2 != 0, subset & 4 != 0];
            let ls = if subset == 8 { Listeners::slow(1000) } else { Listeners::new(panics) };
            let w = World::new(0, 10, InnerMode::Script, 1);
            let plog: Arc<Mutex<ProbeLog>> = Default::default();
            let mut svc = build_on_kind(m, mode, Kind::Strict, GatedInner::new(w.inner.clone()), &plog, Some(ls.clone()));
            let mut outcomes = vec![];
            for (i, out) in [Out::Ok, Out::Err(0), Out::Ok].into_iter().enumerate() {
                {
                    let mut g = w.inner.lock().unwrap();
                    g.script.clear();
                    if mode == Mode::Multiply {
                        g.script.push_back(Plan::now(Out::Err(0)));
                    }
                    g.script.push_back(Plan::now(out));
                    g.default_plan = Plan::now(out);
                }
                let s = drive(&w, &mut svc, Req::new(20 + i as u32, 1));
                ctx.rep.evaluations += 1;
                outcomes.push(match s {
                    Seen::Ok(_) => "ok".to_string(),
                    Seen::Err(EOut::PassThrough(_)) => "pass_through_err".to_string(),
                    other => format!("{other:?}"),
                });
            }
            let logs: Vec<Vec<String>> = ls.logs.iter().map(|l| l.lock().unwrap().clone()).collect();
            let config = if subset == 8 { format!("{} listeners slow (1 s per delivery)", m.name()) } else { format!("{} listeners panicking={:?}", m.name(), panics) };
            match &baseline {
                None => {
                    if logs.iter().all(|l| l.is_empty()) {
                        ctx.rep.machinery.push(format!("{}: no listener received any event (vacuous)", m.name()));
                    }
                    baseline = Some((outcomes, logs));
                }
                Some((bo, bl)) => {
                    if *bo != outcomes {
                        ctx.viol("listener_changed_outcome", &format!("{}::listeners", m.name()), config.clone(), json!({"panicking": panics}), format!("outcomes {:?} with {} listeners, {:?} with well-behaved ones", outcomes, if subset == 8 { "slow" } else { "panicking" }, bo));
                    }
                    if *bl != logs {
                        ctx.viol("listener_missed_events", &format!("{}::listeners", m.name()), config.clone(), json!({"panicking": panics}), format!("event sequences {:?} with {} listeners, {:?} with well-behaved ones", logs, if subset == 8 { "slow" } else { "panicking" }, bl));
                    }
                    ctx.rep.witness(if subset == 8 { "slow_listener_changed_nothing" } else { "listener_panicked_and_was_contained" }, 1);
                }
            }
            ctx.rep.distinct.insert(config);
        }
    }
}

fn pair_grid(ctx: &mut Ctx) {
    for &outer in ALL.iter() {
        for &inner in ALL.iter() {
            for outcome_code in [0u8, 2] {
                let outs: Vec<bool> = (0..3).map(|i| outcome_code & (1 << i) == 0).collect();
                let w = World::new(0, 10, InnerMode::Script, 1);
                let plog: Arc<Mutex<ProbeLog>> = Default::default();
                let base = Probe::new(GatedInner::new(w.inner.clone()), plog.clone(), "innermost");
                let lower = build(inner, Mode::Plain, base, None);
                let mid = Probe::new(ErasedSvc(lower), plog.clone(), "between");
                let mut a = build(outer, Mode::Plain, mid, None);
                let reqs: Vec<Req> = (0..3).map(|i| Req::new(30 + i, (i % 2) as u8 + 1)).collect();
                let mut seen = vec![];
                let mut keep: Option<Box<dyn Erased>> = None;
                for (i, req) in reqs.iter().enumerate() {
                    {
                        let mut g = w.inner.lock().unwrap();
                        g.script.clear();
                        g.script.push_back(Plan::now(if outs[i] { Out::Ok } else { Out::Err(0) }));
                    }
                    let svc = if i == 2 {
                        keep = Some(a.clone_box());
                        keep.as_mut().unwrap()
                    } else {
                        &mut a
                    };
                    seen.push(drive(&w, svc, req.clone()));
                    ctx.rep.evaluations += 1;
                }
                let config = format!("pair outer={} inner={} outcomes={:?}", outer.name(), inner.name(), outs);
                // attribute contract violations to the layer that made the call
                let before = ctx.rep.violations.len();
                judge(ctx, &format!("pair {} over {}", outer.name(), inner.name()), &config, &w, &plog, &reqs, &seen, false, None);
                let _ = before;
                ctx.rep.witness("pair_composed", 1);
                ctx.rep.distinct.insert(config);
            }
        }
    }
}

/// A listener may do anything - also send another request through the same service. When the
/// bulkhead tells its listeners that a call has finished (or failed), that call is over: a
/// request made from inside the listener (as a request of another thread could arrive at that
/// moment) finds the slot free. What the listener does must not depend on, nor change, the
/// outcome of any call.
fn listener_reentrancy(ctx: &mut Ctx) {
    use tower::{Layer, Service};
    use tower_resilience_bulkhead::{BulkheadLayer, BulkheadServiceError};
    type Job = Box<dyn FnMut() -> String + Send>;
    fn run(slot: &Arc<Mutex<Option<Job>>>, seen: &Arc<Mutex<Vec<String>>>) {
        // (taken out first: the nested request's own completion must not recurse)
        let job = slot.lock().unwrap().take();
        if let Some(mut job) = job {
            let r = job();
            seen.lock().unwrap().push(r);
        }
    }
    for fail in [false, true] {
        for reject in [true, false] {
            let w = World::new(0, 10, InnerMode::Script, 1);
            w.inner.lock().unwrap().default_plan = Plan::now(if fail { Out::Err(0) } else { Out::Ok });
            let slot: Arc<Mutex<Option<Job>>> = Arc::new(Mutex::new(None));
            let seen: Arc<Mutex<Vec<String>>> = Arc::new(Mutex::new(vec![]));
            let b = BulkheadLayer::builder().max_concurrent_calls(1);
            let b = if reject { b.reject_when_full() } else { b.max_wait_duration(std::time::Duration::from_millis(20)) };
            let (s1, s2, n1, n2) = (slot.clone(), slot.clone(), seen.clone(), seen.clone());
            let layer = b.on_call_finished(move |_| run(&s1, &n1)).on_call_failed(move |_| run(&s2, &n2)).build();
            let mut svc = layer.layer(GatedInner::new(w.inner.clone()));
            let mut nested = svc.clone();
            *slot.lock().unwrap() = Some(Box::new(move || {
                if !matches!(trv_core::world::drive_ready::<_, Req>(&mut nested, 4), Ok(Ok(()))) {
                    return "not ready".to_string();
                }
                let mut f = Box::pin(nested.call(Req::new(2, 0)));
                let waker = trv_core::ilv::noop_waker();
                let mut cx = std::task::Context::from_waker(&waker);
                match std::future::Future::poll(f.as_mut(), &mut cx) {
                    std::task::Poll::Ready(Ok(_)) => "ok".to_string(),
                    std::task::Poll::Ready(Err(BulkheadServiceError::Inner(_))) => "inner_error".to_string(),
                    std::task::Poll::Ready(Err(BulkheadServiceError::Bulkhead(e))) => format!("refused by the bulkhead: {e}"),
                    std::task::Poll::Pending => "made to wait".to_string(),
                }
            }));
            let outer = catch_unwind(AssertUnwindSafe(|| {
                w.block_on(async {
                    let _ = futures::future::poll_fn(|cx| Service::<Req>::poll_ready(&mut svc, cx)).await;
                    svc.call(Req::new(1, 0)).await.is_ok()
                })
            }))
            .map_err(|_| "panicked");
            ctx.rep.evaluations += 1;
            let want = if fail { "inner_error" } else { "ok" };
            let got = seen.lock().unwrap().clone();
            let config = format!("bulkhead max=1 {} inner outcome {}, a request made from inside the completion listener", if reject { "reject_when_full" } else { "max_wait=20ms" }, if fail { "error" } else { "ok" });
            if outer != Ok(!fail) || got != vec![want.to_string()] {
                ctx.viol("request_from_a_completion_listener_not_admitted", "bulkhead::listener_reentrancy", config, json!(["request 1", "request 2 from the listener of request 1"]), format!("outer call ok={outer:?}; the request made from inside the listener: {got:?}, expected [{want:?}] (nothing is running in the wrapped service at that moment)"));
            }
            ctx.rep.witness("request_made_from_inside_a_completion_listener", 1);
        }
    }
}

fn main() {
    trv_core::startup();
    let cli = trv_core::parse_cli();
    if cli.property != "C20" {
        eprintln!("p-transparency serves C20");
        std::process::exit(2);
    }
    let tier = cli.tier;
    let mut rep = Report::new("C20", tier, "exploration");
    rep.rule = "full grids: (a) 15 middleware variants (13 middleware; breaker with/without fallback, time limiter in both modes) x {non-triggering, call-multiplying} x inner service kind {strict contract probe, tower Buffer, tower ConcurrencyLimit} x inner readiness {ready, pending twice, error} x 4-8 outcome vectors, three requests on an instance and a clone; (b) all 8 subsets of 3 panicking listeners for the 11 variants with listeners; (c) the composition guide's stacks with a contract probe between every two layers; (d) thorough: all 225 ordered pairs of variants with probes. distinct = distinct (configuration, observed result classes)".into();
    rep.assumptions = vec![
        "the harness drives every service the way a well-behaved Tower caller does (poll_ready to Ready, then call)".into(),
        "hedge: an inner error surfaces as AllAttemptsFailed(e); it is accepted as pass-through when e is the inner error unchanged".into(),
    ];
    let mut ctx = Ctx { rep: &mut rep, reported: Default::default() };
    single_grid(&mut ctx, tier);
    listener_grid(&mut ctx);
    late_poll_grid(&mut ctx);
    no_runtime_grid(&mut ctx);
    two_runtime_grid(&mut ctx);
    listener_reentrancy(&mut ctx);
    trigger::run(&mut ctx);
    stacks::run(&mut ctx);
    if tier == Tier::Thorough {
        pair_grid(&mut ctx);
    } else {
        ctx.rep.witness("pair_composed", 0);
    }
    drop(ctx);
    for w in ["ok", "pass_through_err", "readiness_err", "further_attempts_made", "further_attempt_met_readiness_error", "listeners_checked_for_lock_context", "listener_panicked_and_was_contained", "event_kinds_triggered", "stack_ran"] {
        rep.require_witness(w);
    }
    rep.bounds = json!({"variants": ALL.len(), "inner_kinds": 3, "readiness_scripts": 3, "listener_subsets": 8});
    if let Some(p) = cli.replay {
        let v = trv_core::load_replay(&p);
        let (kind, site) = (v["kind"].as_str().unwrap_or(""), v["site"].as_str().unwrap_or(""));
        if rep.violations.iter().any(|x| x.kind == kind && x.site == site) {
            println!("VIOLATION property=C20 replay={p}");
            std::process::exit(1);
        }
        println!("replay: the recorded violation does not occur on the current tree");
        std::process::exit(0);
    }
    trv_core::finish(rep);
}
