//! The composition guide's stacks (14 in `composition::stacks`, 3 in `composition::patterns`),
//! composed outermost-first from the erased middleware with a contract probe between every
//! two layers and below the innermost one.  The guide's own test suite only *builds* these
//! stacks (it never calls them, and several do not type-check as services because the layers'
//! error types do not line up), so the stacks are composed through an error-unifying adapter.

use crate::erased::{Erased, ErasedSvc, Probe, ProbeLog};
use crate::mw::{build, Mode, Mw};
use crate::{drive, judge, Ctx};
use serde_json::json;
use std::sync::{Arc, Mutex};
use trv_core::inner::{GatedInner, Mode as InnerMode, Out, Plan, Req};
use trv_core::world::World;

pub fn guide_stacks() -> Vec<(&'static str, Vec<Mw>)> {
    use Mw::*;
    vec![
        ("external_api_minimal", vec![TimeLimiter, Retry]),
        ("external_api_standard", vec![TimeLimiter, Retry, CircuitBreaker, TimeLimiter]),
        ("external_api_full_with_fallback", vec![Fallback, TimeLimiter, Retry, CircuitBreaker, TimeLimiter]),
        ("external_api_with_hedging", vec![TimeLimiter, Retry, CircuitBreaker, Hedge, TimeLimiter]),
        ("database_standard", vec![TimeLimiter, Retry, Bulkhead]),
        ("database_with_circuit_breaker", vec![TimeLimiter, CircuitBreaker, Bulkhead]),
        ("microservices_standard", vec![TimeLimiter, Retry, CircuitBreaker]),
        ("microservices_adaptive", vec![TimeLimiter, Adaptive, Retry]),
        ("latency_critical_hedge", vec![TimeLimiter, Hedge]),
        ("latency_critical_parallel", vec![TimeLimiterBackground, Hedge]),
        ("message_queue_consumer", vec![TimeLimiter, Retry, CircuitBreaker]),
        ("message_queue_producer", vec![TimeLimiter, Retry, Bulkhead]),
        ("cache_standard", vec![Fallback, TimeLimiter, CircuitBreaker]),
        ("cache_with_coalescing", vec![TimeLimiter, Coalesce, CircuitBreaker]),
        ("pattern_inbound_server_side", vec![RateLimiter, Bulkhead, TimeLimiter]),
        ("pattern_outbound_client_side", vec![Fallback, TimeLimiter, CircuitBreaker, Retry, Reconnect]),
        ("pattern_read_through_cache", vec![Cache, CircuitBreaker, TimeLimiter]),
    ]
}

pub fn compose(layers: &[Mw], mode_for: &dyn Fn(Mw) -> Mode, base: GatedInner, plog: &Arc<Mutex<ProbeLog>>) -> Box<dyn Erased> {
    // innermost first
    let mut it = layers.iter().rev();
    let first = *it.next().expect("non-empty stack");
    let mut cur: Box<dyn Erased> = build(first, mode_for(first), Probe::new(base, plog.clone(), "innermost"), None);
    let mut below = first;
    for &m in it {
        let level = format!("below {} (above {})", m.name(), below.name());
        cur = build(m, mode_for(m), Probe::new(ErasedSvc(cur), plog.clone(), &level), None);
        below = m;
    }
    cur
}

pub fn run(ctx: &mut Ctx) {
    for (name, layers) in guide_stacks() {
        for outcome_code in 0..4u8 {
            let outs: Vec<bool> = (0..3).map(|i| outcome_code & (1 << i) == 0).collect();
            for multiply in [0u8, 1, 2] {
                if multiply > 0 && !layers.iter().any(|m| m.can_multiply()) {
                    continue;
                }
                let alt = multiply == 2;
                let multiply = multiply > 0;
                let w = World::new(0, 10, InnerMode::Script, 1);
                let plog: Arc<Mutex<ProbeLog>> = Default::default();
                let mode_for = |m: Mw| if multiply && m.can_multiply() { if alt { Mode::MultiplyAlt } else { Mode::Multiply } } else { Mode::Plain };
                let mut a = compose(&layers, &mode_for, GatedInner::new(w.inner.clone()), &plog);
                let reqs: Vec<Req> = (0..3).map(|i| Req::new(40 + i, (i % 2) as u8 + 1)).collect();
                let mut seen = vec![];
                let mut keep: Option<Box<dyn Erased>> = None;
                for (i, req) in reqs.iter().enumerate() {
                    {
                        let mut g = w.inner.lock().unwrap();
                        g.script.clear();
                        let fin = if outs[i] { Out::Ok } else { Out::Err(0) };
                        if multiply {
                            g.script.push_back(Plan::now(Out::Err(0)));
                        }
                        g.script.push_back(Plan::now(fin));
                        g.default_plan = Plan::now(fin);
                    }
                    let svc = if i == 2 {
                        keep = Some(a.clone_box());
                        keep.as_mut().unwrap()
                    } else {
                        &mut a
                    };
                    seen.push(drive(&w, svc, req.clone()));
                    ctx.rep.evaluations += 1;
                }
                let config = format!("stack {name} {:?} multiply={multiply} alt_timing={alt} outcomes={outs:?}", layers.iter().map(|m| m.name()).collect::<Vec<_>>());
                if !multiply {
                    judge(ctx, &format!("stack {name}"), &config, &w, &plog, &reqs, &seen, false, None);
                } else {
                    // only the readiness contract and "no panic" are judged when calls multiply
                    let hist = json!({"seen": seen.iter().map(|s| format!("{s:?}")).collect::<Vec<_>>()});
                    for v in w.inner.lock().unwrap().contract_violations.iter().chain(plog.lock().unwrap().violations.iter()) {
                        ctx.viol("call_on_unpolled_instance", &format!("stack {name}"), config.clone(), hist.clone(), v.clone());
                    }
                    for s in &seen {
                        if let crate::Seen::Panicked(p) = s {
                            ctx.viol("panic", &format!("stack {name}"), config.clone(), hist.clone(), p.clone());
                        }
                    }
                }
                ctx.rep.witness("stack_ran", 1);
                ctx.rep.distinct.insert(config);
            }
        }
    }
}
