//! C01 / C07 — bulkhead: engine A over the real `Bulkhead<GatedInner>`.

use serde_json::json;
use std::time::Duration;
use tower::{Layer, Service};
use tower_resilience_bulkhead::{BulkheadError, BulkheadLayer, BulkheadServiceError};
use trv_core::evidence::{Report, Tier};
use trv_core::inner::{CallStatus, GatedInner, Out, Req};
use trv_core::svcx::{self, Action, Counts, Opts, Scenario, Viol};
use trv_core::world::{drive_ready, Outcome, Phase, World};

trv_core::install_clock_seam!();

type Svc = tower_resilience_bulkhead::Bulkhead<GatedInner>;

#[derive(Clone)]
struct Bh {
    prop: &'static str,
    max: usize,
    /// None = wait forever, Some(ms)
    max_wait: Option<u64>,
    callers: usize,
    max_ticks: usize,
    max_drops: usize,
    max_panics: usize,
    /// the executor may poll woken callers late (this many ticks may pass first)
    late_ticks: usize,
    /// shave this many microseconds (< 1000) off max_wait: a sub-millisecond part in the
    /// configured duration. tokio's timers fire at the next millisecond boundary, so the
    /// rejection is still due at first poll + max_wait (in whole ms).
    shave_us: u64,
    /// every caller goes through the one original handle instead of a clone of its own
    /// (nothing else keeps the bulkhead's shared state alive between calls)
    single_handle: bool,
    /// time grid of the explorer (ms): 10, or 1010 for the seconds-range configuration
    grid: u64,
    /// finished call futures are kept alive until the explorer drops them (join!, select! on
    /// &mut fut): a finished call must not go on holding its slot
    keep_done: bool,
    /// the first inner call panics synchronously inside call() (no future is ever returned)
    sync_panic_first: bool,
    /// builder order: reject_when_full() is called first and the wait given afterwards (the
    /// later call wins); max_concurrent_calls is given last
    preset_first: bool,
    /// a (no-op) listener is registered for every event type
    listeners: bool,
    /// one poll per history may happen in a task tick whose cooperative budget is used up
    /// (tokio's semaphore then answers Pending although a permit is free)
    starved_poll: bool,
    /// the inner call's future is slow to drop: one armed caller is polled from inside its Drop
    /// (on another thread a caller could be polled at that moment), see trv_core::nest
    slow_drop: bool,
    /// the original handle is polled ready before each clone is taken from it (a clone of a
    /// ready service must not inherit whatever the original's readiness stands for)
    ready_then_clone: bool,
    /// the layer is applied twice; the other bulkhead (a separate one: its own wrapped service,
    /// its own slots) has max calls in flight for the whole history
    busy_sibling: bool,
}

struct X {
    nest: Option<std::sync::Arc<trv_core::nest::Nest>>,
    svc: Svc,
    /// snapshot before a first poll: (caller, inner live, queued)
    first_poll_pre: Option<(usize, usize, usize)>,
    /// per caller: had an inner call when dropped
    w_release_and_timeout: bool,
    completes_at: Vec<u64>,
    /// calls in flight in the sibling bulkhead (kept alive, never completed)
    #[allow(dead_code)]
    sibling: Vec<std::pin::Pin<Box<dyn std::future::Future<Output = bool>>>>,
    /// the sibling did not admit its own first callers at once (judged as C07's clause)
    sibling_short: Option<String>,
}

fn has_inner(w: &World, c: usize) -> bool {
    match &w.callers[c].req {
        Some(r) => !w.inner_calls_for_req(r.id).is_empty(),
        None => false,
    }
}

fn queued(w: &World) -> Vec<usize> {
    (0..w.callers.len()).filter(|&c| w.callers[c].is_live() && w.callers[c].polls > 0 && !has_inner(w, c)).collect()
}

fn do_arrive(w: &mut World, svc: &mut Svc, c: usize, single_handle: bool, nest: &Option<std::sync::Arc<trv_core::nest::Nest>>, ready_then_clone: bool) {
    let mut own;
    if ready_then_clone {
        match drive_ready::<_, Req>(svc, 4) {
            Ok(Ok(())) => {}
            other => panic!("bulkhead poll_ready (original handle) not ready: {:?}", other.map(|r| r.is_ok())),
        }
    }
    let s: &mut Svc = if single_handle {
        svc
    } else {
        own = svc.clone();
        &mut own
    };
    let req = Req::new(c as u32, 0);
    match drive_ready::<_, Req>(s, 4) {
        Ok(Ok(())) => {}
        other => panic!("bulkhead poll_ready not ready: {:?}", other.map(|r| r.is_ok())),
    }
    // `keep` does not drop the service's own future when it resolves.  (Should call() reach the
    // inner service's call() - it does not on the code as it stands - a panic in there comes
    // out of call() itself.)
    let r = std::panic::catch_unwind(std::panic::AssertUnwindSafe(|| {
        trv_core::world::keep(s.call(req.clone()), |r| match r {
            Ok(r) => Outcome::Ok(r),
            Err(BulkheadServiceError::Inner(e)) => Outcome::Inner(e),
            Err(BulkheadServiceError::Bulkhead(BulkheadError::Timeout)) => Outcome::Layer("Timeout".into()),
            Err(BulkheadServiceError::Bulkhead(BulkheadError::BulkheadFull { .. })) => Outcome::Layer("Full".into()),
        })
    }));
    match r {
        Ok(fut) => {
            let fut = match nest {
                Some(n) => n.wrap(c, fut, w.callers[c].flag.clone()),
                None => fut,
            };
            w.set_arrived(c, req, fut)
        }
        Err(_) => w.set_resolved_at_arrival(c, req, Outcome::Layer("PanickedInCall".into())),
    }
}

impl Scenario for Bh {
    type X = X;
    fn property(&self) -> &'static str {
        self.prop
    }
    fn label(&self) -> String {
        format!("bulkhead max={} max_wait={:?} callers={}{}{}", self.max, self.max_wait, self.callers, if self.late_ticks > 0 { " late-polls" } else { "" }, if self.shave_us > 0 { format!(" minus {}us", self.shave_us) } else if self.single_handle { " one-handle".to_string() } else if self.keep_done { " finished-futures-kept".to_string() } else if self.sync_panic_first { " first-inner-call-panics-in-call()".to_string() } else if self.preset_first { " builder_order=small()_preset_first".to_string() } else if self.listeners { " with-listeners".to_string() } else if self.starved_poll { " one-budget-starved-poll".to_string() } else if self.slow_drop { " inner-future-slow-to-drop".to_string() } else if self.ready_then_clone { " clones-of-a-ready-handle".to_string() } else if self.busy_sibling { " a-second-bulkhead-from-the-same-layer-is-full".to_string() } else { String::new() })
    }
    fn callers(&self) -> usize {
        self.callers
    }
    fn late_ticks(&self) -> usize {
        self.late_ticks
    }
    fn grid_ms(&self) -> u64 {
        self.grid
    }
    fn retain_completed(&self) -> bool {
        self.keep_done
    }
    fn init(&self, w: &mut World) -> X {
        let b = if self.preset_first {
            // (the small() preset: 10 concurrent calls, reject when full - everything overridden below)
            let b = BulkheadLayer::small();
            let b = match self.max_wait {
                None => b, // (not used with preset_first)
                Some(0) => b.max_wait_duration(Duration::from_millis(5)).reject_when_full(),
                Some(WAIT_FOR_EVER) => b.max_wait_duration(Duration::MAX),
                Some(ms) => b.max_wait_duration(Duration::from_micros(ms * 1000 - self.shave_us)),
            };
            b.max_concurrent_calls(self.max)
        } else {
            let b = BulkheadLayer::builder().max_concurrent_calls(self.max);
            match self.max_wait {
                None => b,
                Some(0) => b.reject_when_full(),
                Some(WAIT_FOR_EVER) => b.max_wait_duration(Duration::MAX),
                Some(ms) => b.max_wait_duration(Duration::from_micros(ms * 1000 - self.shave_us)),
            }
        };
        let b = if self.listeners { b.on_call_permitted(|_| {}).on_call_rejected(|_| {}).on_call_finished(|_| {}).on_call_failed(|_| {}) } else { b };
        let layer = b.build();
        if self.sync_panic_first {
            w.inner.lock().unwrap().sync_panic_calls = vec![0];
        }
        // (the service is made by a clone of the layer, as a router that clones its layers per route does)
        let svc = layer.clone().layer(GatedInner::new(w.inner.clone()));
        let nest = if self.slow_drop {
            let n = trv_core::nest::Nest::new();
            let n2 = n.clone();
            w.inner.lock().unwrap().on_drop = Some(std::sync::Arc::new(move |_k| n2.hook()));
            Some(n)
        } else {
            None
        };
        let mut sibling: Vec<std::pin::Pin<Box<dyn std::future::Future<Output = bool>>>> = vec![];
        let mut sibling_short: Option<String> = None;
        if self.busy_sibling {
            // a second bulkhead made by the same layer value, over a wrapped service of its own
            // whose calls never complete: it is filled up and stays full
            let other = trv_core::inner::new_shared(w.origin, trv_core::inner::Mode::Gated);
            let mut b = layer.layer(GatedInner::new(other.clone()));
            for i in 0..self.max {
                drive_ready::<_, Req>(&mut b, 4).expect("sibling ready").ok();
                let f = b.call(Req::new(900 + i as u32, 0));
                let mut f: std::pin::Pin<Box<dyn std::future::Future<Output = bool>>> = Box::pin(async move { f.await.is_ok() });
                w.block_on(futures::future::poll_fn(|cx| {
                    let _ = f.as_mut().poll(cx);
                    std::task::Poll::Ready(())
                }));
                sibling.push(f);
            }
            let admitted = other.lock().unwrap().live();
            if admitted != self.max {
                // (not the harness's problem: reported by the first step oracle)
                sibling_short = Some(format!("the sibling bulkhead (idle, max={}) admitted only {admitted} of its first {} callers in their first poll", self.max, self.max));
            }
        }
        X { nest, svc, first_poll_pre: None, w_release_and_timeout: false, completes_at: vec![], sibling, sibling_short }
    }
    fn arrive(&self, w: &mut World, x: &mut X, c: usize, _v: u8) {
        let nest = x.nest.clone();
        do_arrive(w, &mut x.svc, c, self.single_handle, &nest, self.ready_then_clone);
    }
    fn outs(&self) -> Vec<Out> {
        vec![Out::Ok, Out::Err(0), Out::Panic]
    }
    fn allow(&self, _w: &World, _x: &X, h: &[Action], a: &Action) -> bool {
        let c = Counts::of(h);
        match a {
            Action::Tick => c.ticks < self.max_ticks,
            Action::Drop(_) => c.drops < self.max_drops,
            Action::Complete(_, Out::Panic) => c.panics < self.max_panics,
            Action::Ctl(_) => c.ctls < 1,
            _ => true,
        }
    }
    fn ctl_actions(&self, w: &World, _x: &X) -> Vec<u8> {
        // Ctl(0): the next poll finds the task's cooperative budget used up
        let mut v = vec![];
        if self.starved_poll && !w.starve_next_poll && (0..w.callers.len()).any(|c| w.pollable(c)) {
            v.push(0);
        }
        // Ctl(10 + j): arm caller j to be polled from inside the next slow drop
        if let Some(n) = &_x.nest {
            if n.armed().is_none() {
                v.extend((0..w.callers.len().min(self.callers)).filter(|&j| w.pollable(j)).map(|j| 10 + j as u8));
            }
        }
        v
    }
    fn apply_ctl(&self, w: &mut World, x: &mut X, ctl: u8) {
        if ctl >= 10 {
            if let Some(n) = &x.nest {
                n.arm(ctl as usize - 10);
            }
        } else {
            w.starve_next_poll = true;
        }
    }
    fn fingerprint(&self, _w: &World, x: &X) -> String {
        // (which caller is armed for a nested poll, and who was polled from inside a drop, is
        // state: the next slow drop and the "handed over" exemption depend on it)
        match &x.nest {
            Some(n) => format!("nest {:?}/{:?}", n.armed(), n.fired()),
            None => String::new(),
        }
    }
    fn before(&self, w: &World, x: &mut X, a: &Action) {
        x.first_poll_pre = None;
        if let Action::Poll(c) = a {
            let c = *c as usize;
            // (a starved first poll cannot take the slot: "admitted at once" is not judged for it)
            // (... nor while a caller that was polled from inside a slow drop waits at the head
            // of the semaphore's queue: the freed permit is handed to it)
            let handed_over = x.nest.as_ref().map_or(false, |n| n.fired().iter().any(|(j, _)| *j != c && w.callers[*j].is_live() && !has_inner(w, *j)));
            if w.callers[c].polls == 0 && !w.starve_next_poll && !handed_over {
                x.first_poll_pre = Some((c, w.inner_live(), queued(w).len()));
            }
        }
        if let Action::Complete(..) = a {
            x.completes_at.push(w.now_ms());
        }
    }
    fn after(&self, w: &mut World, x: &mut X, _a: &Action, out: &mut Vec<Viol>) {
        let site = "bulkhead";
        let now = w.now_ms();
        // C01: never more than `max` inside the inner service
        let live = w.inner_live().max(w.inner.lock().unwrap().peak_live);
        if live > self.max {
            out.push(Viol::new("over_admission", site, format!("{} inner calls live with max_concurrent_calls={}", live, self.max)));
        }
        // witness: a permit release and a wait deadline at the same instant
        if let Action::Complete(..) = _a {
            for (c, cl) in w.callers.iter().enumerate() {
                if let (Some(wt), Some(fp)) = (self.max_wait, cl.first_poll_ms) {
                    if wt > 0 && cl.is_live() && now == fp + wt && !has_inner(w, c) {
                        x.w_release_and_timeout = true;
                    }
                }
            }
        }
        if self.prop == "C01" {
            return;
        }
        // C07 clauses
        if let Some(d) = x.sibling_short.take() {
            out.push(Viol::new("not_admitted_at_once", site, d));
        }
        if let Some((c, live_before, queued_before)) = x.first_poll_pre {
            if live_before < self.max && queued_before == 0 && !has_inner(w, c) {
                out.push(Viol::new(
                    "not_admitted_at_once",
                    site,
                    format!("caller {c} first polled with {live_before}<{} in flight and nobody queued, but its inner call was not started in that poll (phase {:?})", self.max, w.callers[c].phase),
                ));
            }
        }
        for (c, cl) in w.callers.iter().enumerate() {
            match &cl.phase {
                Phase::Done(Outcome::Layer(tag)) => {
                    if has_inner(w, c) {
                        out.push(Viol::new("rejected_reached_inner", site, format!("caller {c} was rejected ({tag}) but its request reached the inner service")));
                    }
                    if tag == "Full" {
                        out.push(Viol::new("rejected_with_full", site, format!("caller {c} rejected with BulkheadFull (only the timeout error is allowed)")));
                    }
                    match (self.max_wait, cl.first_poll_ms, cl.done_ms) {
                        (Some(wt), Some(fp), Some(d)) => {
                            // with a late executor the rejection is seen late, never early
                            if (self.late_ticks == 0 && d != fp + wt) || d < fp + wt {
                                out.push(Viol::new("reject_not_at_deadline", site, format!("caller {c} first polled at {fp}, max_wait {wt}, rejected at {d}")));
                            }
                        }
                        (None, _, _) => out.push(Viol::new("rejected_without_timeout", site, format!("caller {c} rejected though no max_wait is configured"))),
                        _ => {}
                    }
                }
                Phase::Live => {
                    if let (Some(wt), Some(fp)) = (self.max_wait, cl.first_poll_ms) {
                        if self.late_ticks == 0 && !has_inner(w, c) && now > fp + wt {
                            out.push(Viol::new("queued_past_deadline", site, format!("caller {c} first polled at {fp}, max_wait {wt}, still queued at {now}")));
                        }
                    }
                }
                Phase::Dropped => {
                    // a caller dropped while waiting never reaches the inner service later
                    if let Some(r) = &cl.req {
                        let g = w.inner.lock().unwrap();
                        for k in g.calls.iter().filter(|k| k.req.id == r.id) {
                            if Some(k.start_ms) > cl.dropped_ms {
                                out.push(Viol::new("cancelled_reached_inner", site, format!("caller {c} dropped at {:?} but inner call started at {}", cl.dropped_ms, k.start_ms)));
                            }
                        }
                    }
                }
                _ => {}
            }
        }
    }
    fn witnesses(&self, w: &World, x: &X, h: &[Action]) -> Vec<&'static str> {
        let mut v = vec![];
        let q = queued(w);
        if !q.is_empty() && w.inner_live() == self.max {
            v.push("queue_nonempty_while_full");
        }
        if (0..w.callers.len()).filter(|&c| w.pollable(c)).count() >= 2 {
            v.push("two_callers_pollable_at_one_instant");
        }
        if let Some(Action::Drop(c)) = h.last() {
            let c = *c as usize;
            if has_inner(w, c) {
                v.push("drop_while_running");
            } else if w.callers[c].polls > 0 {
                v.push("drop_while_queued");
            } else {
                v.push("drop_before_first_poll");
            }
        }
        if w.callers.iter().any(|c| matches!(&c.phase, Phase::Done(Outcome::Layer(t)) if t == "Timeout")) {
            v.push("reject_at_deadline");
        }
        if x.w_release_and_timeout {
            v.push("release_and_deadline_same_instant");
        }
        if w.late_ticks > 0 {
            v.push("time_passed_while_a_woken_caller_was_unpolled");
        }
        if w.callers.iter().any(|c| c.phase == Phase::Panicked) {
            v.push("inner_panic_propagated");
        }
        v
    }
    fn epilogue(&self, w: &mut World, x: &mut X, out: &mut Vec<Viol>) -> String {
        let site = "bulkhead";
        if !svcx::drain(w, 24) {
            out.push(Viol::new("caller_never_resolves", site, format!("callers {:?} still unresolved after draining", w.live_callers())));
            return "stuck".into();
        }
        let drained: Vec<String> = w
            .callers
            .iter()
            .map(|c| match &c.phase {
                Phase::Done(o) => o.tag(),
                p => format!("{:?}", p).chars().take(4).collect(),
            })
            .collect();
        if w.inner_live() != 0 {
            out.push(Viol::new("inner_live_after_drain", site, "inner calls still live after all callers resolved"));
        }
        // probe: `max` fresh callers must all be admitted at their first poll; one more must not
        let base = w.callers.len();
        let mut started = vec![];
        for i in 0..=self.max {
            let c = w.add_caller();
            debug_assert_eq!(c, base + i);
            w.begin_step();
            let nest = x.nest.clone();
        do_arrive(w, &mut x.svc, c, self.single_handle, &nest, self.ready_then_clone);
            if w.callers[c].is_live() {
                w.poll_caller(c);
            }
            started.push(has_inner(w, c));
        }
        if self.prop == "C07" {
            for i in 0..self.max {
                if !started[i] {
                    out.push(Viol::new(
                        "capacity_lost",
                        site,
                        format!("after drain, probe caller {} of {} was not admitted at its first poll (started={:?})", i + 1, self.max, started),
                    ));
                    break;
                }
            }
        }
        // (a probe call that panicked inside call() reached the inner service but is not inside it)
        if w.inner_live() > self.max {
            out.push(Viol::new("over_admission", site, format!("after drain, {} of {} probe callers are inside the inner service at once (max {})", w.inner_live(), self.max + 1, self.max)));
        }
        // clean up probes (keeps the runtime drop quiet)
        for c in base..w.callers.len() {
            if w.callers[c].is_live() {
                w.drop_caller(c);
            }
        }
        let _ = CallStatus::Pending;
        format!("{:?}|{:?}", drained, started)
    }
}

/// max_wait value standing for `max_wait_duration(Duration::MAX)`: a wait that is configured
/// but never runs out
const WAIT_FOR_EVER: u64 = u64::MAX / 4;

fn configs(prop: &'static str, tier: Tier) -> Vec<Bh> {
    let mut v = vec![];
    // listeners registered for every event type
    for max_wait in [None, Some(0u64), Some(20)] {
        v.push(Bh { prop, max: 1, max_wait, callers: 3, max_ticks: tier.pick(3, 4), max_drops: 1, max_panics: 1, late_ticks: 0, shave_us: 0, single_handle: false, grid: 10, keep_done: false, sync_panic_first: false, preset_first: false, listeners: true, starved_poll: false, slow_drop: false, ready_then_clone: false, busy_sibling: false });
    }
    // an inner call whose future is slow to drop (a caller polled from inside that drop)
    for max_wait in [None, Some(20u64)] {
        v.push(Bh { prop, max: 1, max_wait, callers: 3, max_ticks: tier.pick(1, 2), max_drops: 1, max_panics: 0, late_ticks: 0, shave_us: 0, single_handle: false, grid: 10, keep_done: false, sync_panic_first: false, preset_first: false, listeners: false, starved_poll: false, slow_drop: true, ready_then_clone: false, busy_sibling: false });
    }
    // one budget-starved poll per history
    for max_wait in [Some(0u64), Some(20)] {
        v.push(Bh { prop, max: 1, max_wait, callers: 3, max_ticks: tier.pick(3, 4), max_drops: 0, max_panics: 0, late_ticks: 0, shave_us: 0, single_handle: false, grid: 10, keep_done: false, sync_panic_first: false, preset_first: false, listeners: false, starved_poll: true, slow_drop: false, ready_then_clone: false, busy_sibling: false });
    }
    // a wait of Duration::MAX (the timer cannot represent the deadline)
    v.push(Bh { prop, max: 1, max_wait: Some(WAIT_FOR_EVER), callers: 3, max_ticks: tier.pick(2, 3), max_drops: 1, max_panics: 0, late_ticks: 0, shave_us: 0, single_handle: false, grid: 10, keep_done: false, sync_panic_first: false, preset_first: false, listeners: false, starved_poll: false, slow_drop: false, ready_then_clone: false, busy_sibling: false });
    for max in [1usize, 2] {
        for max_wait in [None, Some(0), Some(20), Some(25)] {
            let callers = tier.pick(3, 4).max(max + 1);
            v.push(Bh {
                prop,
                max,
                max_wait,
                callers: if max == 2 { callers.max(3) } else { callers },
                max_ticks: tier.pick(3, 5),
                max_drops: tier.pick(2, 3),
                max_panics: 1,
                late_ticks: 0,
                shave_us: 0,
                single_handle: false,
                grid: 10,
                keep_done: false,
                sync_panic_first: false,
                preset_first: false,
                listeners: false,
                starved_poll: false,
                slow_drop: false,
                ready_then_clone: false, busy_sibling: false,
            });
        }
    }
    // a wait in the seconds range (2.02 s, explored on a 1.01 s grid): whole seconds plus a
    // sub-second part
    v.push(Bh { prop, max: 1, max_wait: Some(2020), callers: 3, max_ticks: tier.pick(3, 4), max_drops: 1, max_panics: 0, late_ticks: 0, shave_us: 0, single_handle: false, grid: 1010, keep_done: false, sync_panic_first: false, preset_first: false, listeners: false, starved_poll: false, slow_drop: false, ready_then_clone: false, busy_sibling: false });
    // the builder calls in another order: reject_when_full() first, the wait (or a second
    // reject_when_full()) after it, the limit last - the later call wins
    for max_wait in [Some(0u64), Some(20)] {
        v.push(Bh { prop, max: 1, max_wait, callers: 3, max_ticks: tier.pick(3, 4), max_drops: 1, max_panics: 0, late_ticks: 0, shave_us: 0, single_handle: false, grid: 10, keep_done: false, sync_panic_first: false, preset_first: true, listeners: false, starved_poll: false, slow_drop: false, ready_then_clone: false, busy_sibling: false });
    }
    // the first inner call panics inside call() itself
    for max_wait in [None, Some(20u64)] {
        v.push(Bh { prop, max: 1, max_wait, callers: 3, max_ticks: tier.pick(2, 3), max_drops: 1, max_panics: 0, late_ticks: 0, shave_us: 0, single_handle: false, grid: 10, keep_done: false, sync_panic_first: true, preset_first: false, listeners: false, starved_poll: false, slow_drop: false, ready_then_clone: false, busy_sibling: false });
    }
    // finished futures stay alive until dropped explicitly
    for max_wait in [None, Some(20u64)] {
        v.push(Bh { prop, max: 1, max_wait, callers: 3, max_ticks: tier.pick(2, 3), max_drops: tier.pick(2, 3), max_panics: 0, late_ticks: 0, shave_us: 0, single_handle: false, grid: 10, keep_done: true, sync_panic_first: false, preset_first: false, listeners: false, starved_poll: false, slow_drop: false, ready_then_clone: false, busy_sibling: false });
    }
    // all callers through the one original handle (no clone alive between calls)
    for max_wait in [None, Some(20u64)] {
        v.push(Bh { prop, max: 1, max_wait, callers: 3, max_ticks: tier.pick(3, 4), max_drops: 1, max_panics: 0, late_ticks: 0, shave_us: 0, single_handle: true, grid: 10, keep_done: false, sync_panic_first: false, preset_first: false, listeners: false, starved_poll: false, slow_drop: false, ready_then_clone: false, busy_sibling: false });
    }
    // waits with a sub-millisecond part: 0.5 ms and 19.75 ms
    for (max_wait, shave_us) in [(1u64, 500u64), (20, 250)] {
        v.push(Bh { prop, max: 1, max_wait: Some(max_wait), callers: 3, max_ticks: tier.pick(3, 4), max_drops: 1, max_panics: 0, late_ticks: 0, shave_us, single_handle: false, grid: 10, keep_done: false, sync_panic_first: false, preset_first: false, listeners: false, starved_poll: false, slow_drop: false, ready_then_clone: false, busy_sibling: false });
    }
    // every caller's handle is a clone taken from the original right after the original was
    // polled ready (only the occupancy bound is judged: a bulkhead that reserves in poll_ready
    // may rightly keep a slot for the original)
    if prop == "C01" {
        for max_wait in [None, Some(0u64), Some(20u64)] {
            v.push(Bh { prop, max: 1, max_wait, callers: 3, max_ticks: tier.pick(2, 3), max_drops: 1, max_panics: 0, late_ticks: 0, shave_us: 0, single_handle: false, grid: 10, keep_done: false, sync_panic_first: false, preset_first: false, listeners: false, starved_poll: false, slow_drop: false, ready_then_clone: true, busy_sibling: false });
        }
    }
    // the same layer applied twice: the other bulkhead is full, this one must not notice
    for max_wait in [None, Some(0u64), Some(20u64)] {
        v.push(Bh { prop, max: 1, max_wait, callers: 3, max_ticks: tier.pick(2, 3), max_drops: 1, max_panics: 0, late_ticks: 0, shave_us: 0, single_handle: false, grid: 10, keep_done: false, sync_panic_first: false, preset_first: false, listeners: false, starved_poll: false, slow_drop: false, ready_then_clone: false, busy_sibling: true });
    }
    // a late executor: woken callers (permit handed over, wait deadline passed) are polled up to two ticks late
    for (max, max_wait) in [(1usize, Some(20u64)), (1, None), (2, Some(20))] {
        if tier == Tier::Quick && max == 2 {
            continue;
        }
        v.push(Bh { prop, max, max_wait, callers: 3, max_ticks: tier.pick(4, 5), max_drops: tier.pick(1, 2), max_panics: tier.pick(0, 1), late_ticks: 2, shave_us: 0, single_handle: false, grid: 10, keep_done: false, sync_panic_first: false, preset_first: false, listeners: false, starved_poll: false, slow_drop: false, ready_then_clone: false, busy_sibling: false });
    }
    v
}

fn main() {
    trv_core::startup();
    let cli = trv_core::parse_cli();
    let prop: &'static str = match cli.property.as_str() {
        "C01" => "C01",
        "C07" => "C07",
        p => {
            eprintln!("p-bulkhead serves C01 and C07, not {p}");
            std::process::exit(2);
        }
    };
    if let Some(path) = cli.replay {
        let v = trv_core::load_replay(&path);
        let label = v["config"].as_str().unwrap_or("");
        let hist = svcx::dec_hist(&v["history"]).expect("history");
        let kind = v["kind"].as_str().unwrap_or("");
        for tier in [Tier::Quick, Tier::Thorough] {
            for cfg in configs(prop, tier) {
                if cfg.label() == label {
                    let (hit, log) = svcx::replay(&cfg, &hist, kind);
                    for l in log {
                        println!("{l}");
                    }
                    if hit {
                        println!("VIOLATION property={prop} replay={path}");
                        std::process::exit(1);
                    }
                    println!("replay: violation did not reproduce");
                    std::process::exit(0);
                }
            }
        }
        eprintln!("MACHINERY no configuration labelled '{label}'");
        std::process::exit(2);
    }
    let tier = cli.tier;
    let mut rep = Report::new(prop, tier, "model_checking");
    rep.rule = "BFS over action histories {Arrive,Poll,Drop,Complete(ok|err|panic),Tick} of the real Bulkhead under virtual time; states are canonical fingerprints; each state also drained and probed".into();
    rep.assumptions = vec![
        "prompt executor: virtual time does not advance while a woken caller is unpolled (the late-polls configurations lift this for up to two ticks and drop the exact-deadline clause, which presupposes prompt polling)".into(),
        "interleaving granularity is one Future::poll (shared state is a tokio semaphore)".into(),
    ];
    for w in ["queue_nonempty_while_full", "two_callers_pollable_at_one_instant", "drop_while_running", "drop_while_queued", "drop_before_first_poll", "reject_at_deadline", "inner_panic_propagated", "release_and_deadline_same_instant", "time_passed_while_a_woken_caller_was_unpolled"] {
        rep.require_witness(w);
    }
    let depth = tier.pick(9, 14);
    rep.bounds = json!({"depth": depth, "callers": tier.pick(3,4), "max_ticks": tier.pick(3,5), "max_drops": tier.pick(2,3), "max_panics": 1, "grid_ms": 10});
    for cfg in configs(prop, tier) {
        let opts = Opts { max_depth: depth, time_cap: Duration::from_secs(tier.pick(40, 900)), ..Opts::default() };
        let ex = svcx::explore(&cfg, &opts, &mut rep);
        if tier == Tier::Thorough {
            svcx::validate_abstraction(&cfg, 6, &ex.fingerprints, ex.depth_completed, &mut rep);
        }
    }
    no_timer_run(prop, &mut rep);
    trv_core::finish(rep);
}

/// "Wait without limit" needs no timer: a bulkhead without max_wait_duration depends on nothing
/// but its semaphore. Two calls through a one-slot bulkhead are driven by hand with a no-op
/// waker, outside any runtime (no tokio context, no time driver): the first is admitted and
/// answered, the second is admitted once the first has finished; nothing may panic.
fn no_timer_run(prop: &'static str, rep: &mut Report) {
    use std::future::Future;
    use std::task::{Context, Poll};
    use trv_core::inner::InnerErr;
    #[derive(Clone)]
    struct Now;
    impl Service<Req> for Now {
        type Response = u32;
        type Error = InnerErr;
        type Future = std::future::Ready<Result<u32, InnerErr>>;
        fn poll_ready(&mut self, _cx: &mut Context<'_>) -> Poll<Result<(), InnerErr>> {
            Poll::Ready(Ok(()))
        }
        fn call(&mut self, req: Req) -> Self::Future {
            std::future::ready(Ok(req.id))
        }
    }
    let r = std::panic::catch_unwind(|| {
        let layer = BulkheadLayer::builder().max_concurrent_calls(1).build();
        let mut svc = layer.layer(Now);
        let waker = trv_core::ilv::noop_waker();
        let mut cx = Context::from_waker(&waker);
        let mut answers = vec![];
        for id in [1u32, 2] {
            if !matches!(svc.poll_ready(&mut cx), Poll::Ready(Ok(()))) {
                return Err("poll_ready not ready".to_string());
            }
            let mut fut = Box::pin(svc.call(Req::new(id, 0)));
            let mut got = None;
            for _ in 0..4 {
                if let Poll::Ready(r) = fut.as_mut().poll(&mut cx) {
                    got = Some(r.map_err(|_| ()));
                    break;
                }
            }
            answers.push(got);
        }
        if answers == vec![Some(Ok(1)), Some(Ok(2))] {
            Ok(())
        } else {
            Err(format!("answers {answers:?}"))
        }
    });
    rep.evaluations += 1;
    rep.witness("call_driven_outside_any_runtime", 1);
    let problem = match r {
        Ok(Ok(())) => None,
        Ok(Err(e)) => Some(e),
        Err(p) => Some(format!("panicked: {}", p.downcast_ref::<String>().cloned().or_else(|| p.downcast_ref::<&str>().map(|s| s.to_string())).unwrap_or_default())),
    };
    if let Some(e) = problem {
        rep.violations.push(trv_core::evidence::Violation {
            property: prop.into(),
            kind: "needs_a_timer_to_wait_without_limit".into(),
            site: "bulkhead".into(),
            config: "bulkhead max=1 max_wait=None, calls driven outside any runtime".into(),
            history: json!(["call 1 to its end", "call 2 to its end"]),
            detail: format!("a bulkhead without max_wait_duration, free slot, no tokio runtime: {e}"),
            log: vec![],
        });
    }
}
