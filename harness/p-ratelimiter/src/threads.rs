//! C02 / C15, thread level (engine B): several OS threads acquire through clones of one real
//! RateLimiter; the scheduler explores every interleaving of their *critical sections* (the
//! repository's `verif-hooks` mutex yields before every acquisition). The limiter's decision
//! must be one indivisible check-and-take: admissions never exceed the limit of the window,
//! and the callers' results equal those of some one-at-a-time execution of the same calls on
//! the real limiter.
//!
//! timeout_duration is zero (every call is decided in its first poll, so no timer and no
//! runtime is involved) and the refresh period is an hour of real time (no window turnover).

use std::future::Future;
use std::sync::atomic::{AtomicUsize, Ordering};
use std::sync::Arc;
use std::task::{Context, Poll};
use std::time::Duration;
use tower::{Layer, Service};
use tower_resilience_ratelimiter::{RateLimiterLayer, RateLimiterServiceError, WindowType};
use trv_core::evidence::{Report, Tier};
use trv_core::ilv::{self, LinCheck, OpFn, Spec};
use trv_core::inner::{InnerErr, Req, Resp};

#[derive(Clone)]
pub struct CountInner {
    calls: Arc<AtomicUsize>,
}

impl Service<Req> for CountInner {
    type Response = Resp;
    type Error = InnerErr;
    type Future = std::future::Ready<Result<Resp, InnerErr>>;
    fn poll_ready(&mut self, _cx: &mut Context<'_>) -> Poll<Result<(), InnerErr>> {
        Poll::Ready(Ok(()))
    }
    fn call(&mut self, req: Req) -> Self::Future {
        let n = self.calls.fetch_add(1, Ordering::SeqCst) as u32;
        std::future::ready(Ok(Resp { serial: n + 1, req: req.id, key: req.key }))
    }
}

pub struct Shared {
    svc: tower_resilience_ratelimiter::RateLimiter<CountInner>,
    calls: Arc<AtomicUsize>,
}

#[derive(Clone)]
pub struct TCfg {
    pub window: WindowType,
    pub limit: usize,
    /// calls per thread
    pub programs: Vec<usize>,
}

fn wname(w: WindowType) -> &'static str {
    match w {
        WindowType::Fixed => "fixed",
        WindowType::SlidingLog => "sliding_log",
        WindowType::SlidingCounter => "sliding_counter",
    }
}

impl TCfg {
    pub fn label(&self) -> String {
        format!("ratelimiter threads window={} limit={} timeout=0 calls_per_thread={:?}", wname(self.window), self.limit, self.programs)
    }
    fn spec(&self) -> Spec<Shared, i64> {
        let me = self.clone();
        let acquire: OpFn<Shared, i64> = Arc::new(|s: &Shared| {
            let mut svc = s.svc.clone();
            let waker = ilv::noop_waker();
            let mut cx = Context::from_waker(&waker);
            match svc.poll_ready(&mut cx) {
                Poll::Ready(Ok(())) => {}
                _ => return -9,
            }
            let mut fut = Box::pin(svc.call(Req::new(0, 0)));
            match fut.as_mut().poll(&mut cx) {
                Poll::Ready(Ok(_)) => 1,
                Poll::Ready(Err(RateLimiterServiceError::RateLimited)) => 0,
                Poll::Ready(Err(RateLimiterServiceError::Inner(_))) => -2,
                Poll::Pending => -3,
            }
        });
        let limit = self.limit;
        Spec {
            name: self.label(),
            make: Arc::new(move || {
                let calls = Arc::new(AtomicUsize::new(0));
                let layer = RateLimiterLayer::builder()
                    .limit_for_period(me.limit)
                    .refresh_period(Duration::from_secs(3600))
                    .timeout_duration(Duration::ZERO)
                    .window_type(me.window)
                    .build();
                Shared { svc: layer.layer(CountInner { calls: calls.clone() }), calls }
            }),
            threads: self.programs.iter().map(|n| (0..*n).map(|_| ("acquire".to_string(), acquire.clone())).collect()).collect(),
            install_hook: Arc::new(|| tower_resilience_core::verif::set_yield_hook(Some(Box::new(|op| ilv::yield_point(op))))),
            uninstall_hook: Arc::new(|| tower_resilience_core::verif::set_yield_hook(None)),
            step_check: Arc::new(move |s: &Shared| {
                let n = s.calls.load(Ordering::SeqCst);
                if n > limit {
                    Some(format!("{n} calls reached the wrapped service within one window (limit_for_period {limit})"))
                } else {
                    None
                }
            }),
            spurious: false,
        }
    }
}

pub fn configs(tier: Tier) -> Vec<TCfg> {
    let mut v = vec![];
    for window in [WindowType::Fixed, WindowType::SlidingLog, WindowType::SlidingCounter] {
        for (limit, programs) in tier.pick(
            vec![(1usize, vec![1usize, 1]), (1, vec![1, 1, 1]), (2, vec![1, 1, 1])],
            vec![(1usize, vec![1usize, 1]), (1, vec![1, 1, 1]), (2, vec![1, 1, 1]), (2, vec![2, 1, 1]), (1, vec![2, 2]), (3, vec![2, 2, 1]), (2, vec![1, 1, 1, 1])],
        ) {
            v.push(TCfg { window, limit, programs });
        }
    }
    v
}

fn lin<'a>(prop: &'a str, cfg: &TCfg, spec: &'a Spec<Shared, i64>, tier: Tier, observe: &'a (dyn Fn(&Shared) -> String + Sync), extra: &'a (dyn Fn(&ilv::Execution<i64>, &Shared) -> Vec<(String, String)> + Sync)) -> LinCheck<'a, Shared, i64> {
    LinCheck {
        property: prop,
        site: wname(cfg.window),
        label: cfg.label(),
        spec,
        bounds: tier.pick(vec![Some(0), Some(1), Some(2)], vec![Some(0), Some(1), Some(2), None]),
        max_schedules: tier.pick(100_000, 2_000_000),
        observe,
        extra,
        linearizable: true,
    }
}

fn observe(s: &Shared) -> String {
    format!("inner_calls={}", s.calls.load(Ordering::SeqCst))
}

fn extra_for(limit: usize) -> impl Fn(&ilv::Execution<i64>, &Shared) -> Vec<(String, String)> + Sync {
    move |x, s| {
        let mut v = vec![];
        let admitted = x.returns.iter().flatten().filter(|r| **r == 1).count();
        let calls = s.calls.load(Ordering::SeqCst);
        if x.returns.iter().flatten().any(|r| *r < 0) {
            v.push(("undecided_in_first_poll".to_string(), format!("with timeout 0 a call was not decided in its first poll (returns {:?})", x.returns)));
        }
        if admitted != calls {
            v.push(("admitted_vs_inner_calls".to_string(), format!("{admitted} callers were admitted but the wrapped service was called {calls} times")));
        }
        if calls > limit {
            v.push(("window_overrun".to_string(), format!("{calls} admissions in one window (limit_for_period {limit})")));
        }
        v
    }
}

pub fn run(prop: &'static str, tier: Tier, rep: &mut Report) {
    for cfg in configs(tier) {
        let spec = cfg.spec();
        let extra = extra_for(cfg.limit);
        let c = lin(prop, &cfg, &spec, tier, &observe, &extra);
        ilv::check_linearizable(&c, rep);
    }
}

/// Replay of a recorded thread schedule; None if the label is not one of ours.
pub fn replay(prop: &'static str, label: &str, choices: &[usize], kind: &str) -> Option<bool> {
    let mut all = configs(Tier::Quick);
    all.extend(configs(Tier::Thorough));
    for cfg in all {
        if cfg.label() == label {
            let spec = cfg.spec();
            let extra = extra_for(cfg.limit);
            let c = lin(prop, &cfg, &spec, Tier::Thorough, &observe, &extra);
            return Some(ilv::replay_schedule(&c, choices, kind));
        }
    }
    None
}

#[allow(dead_code)]
fn _assert_future<F: Future>(_: &F) {}
