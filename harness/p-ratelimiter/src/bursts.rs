//! C02 / C15, burst grid (engine C): with timeout_duration = 0 every call is decided in its
//! first poll, so long runs are cheap. Every pattern of up to four bursts placed on
//! quarter-period instants over three periods is run for every window type, for small and
//! large limits (a large limit makes the limiter's wait estimates sub-millisecond) and for
//! an extreme one (refresh period Duration::MAX; limit 0 is outside the property, which quantifies over limits >= 1); the admission instants
//! are judged by the same window oracles as the schedule exploration.

use crate::{admissions, cut_exists, wname};
use serde_json::json;
use std::time::Duration;
use tower::{Layer, Service};
use tower_resilience_ratelimiter::{RateLimiterLayer, RateLimiterServiceError, WindowType};
use trv_core::evidence::{Report, Tier, Violation};
use trv_core::inner::{GatedInner, Mode, Req};
use trv_core::world::{drive_ready, World};

/// refresh periods in microseconds; u64::MAX stands for Duration::MAX
const FOREVER: u64 = u64::MAX;

fn run_pattern(window: WindowType, limit: usize, period: u64, bursts: &[(u64, usize)]) -> (Vec<u64>, Vec<(u64, bool)>, Option<String>) {
    let w = World::new(0, 10, Mode::Script, 1);
    let p = if period == FOREVER { Duration::MAX } else { Duration::from_micros(period) };
    let layer = RateLimiterLayer::builder().limit_for_period(limit).refresh_period(p).timeout_duration(Duration::ZERO).window_type(window).build();
    let svc = layer.layer(GatedInner::new(w.inner.clone()));
    let mut decisions = vec![];
    let mut id = 0u32;
    let mut problem = None;
    let mut now = 0u64;
    for (at, count) in bursts {
        if *at > now {
            let d = *at - now;
            w.block_on(async move { tokio::time::sleep(Duration::from_millis(d)).await });
            now = *at;
        }
        for _ in 0..*count {
            let mut s = svc.clone();
            if drive_ready::<_, Req>(&mut s, 4).is_err() {
                problem = Some("poll_ready did not become ready".to_string());
            }
            id += 1;
            let fut = s.call(Req::new(id, 0));
            let r = std::panic::catch_unwind(std::panic::AssertUnwindSafe(|| {
                w.block_on(async move {
                    // timeout 0: the decision must not need any waiting
                    match tokio::time::timeout(Duration::from_millis(0), fut).await {
                        Ok(Ok(_)) => Some(true),
                        Ok(Err(RateLimiterServiceError::RateLimited)) => Some(false),
                        Ok(Err(RateLimiterServiceError::Inner(_))) => None,
                        Err(_) => None,
                    }
                })
            }));
            match r {
                Ok(Some(adm)) => decisions.push((now, adm)),
                Ok(None) => problem = Some(format!("call at {now}ms was not decided in its first poll (timeout 0)")),
                Err(_) => problem = Some(format!("call at {now}ms panicked")),
            }
        }
    }
    (admissions(&w), decisions, problem)
}

pub fn run(prop: &'static str, tier: Tier, rep: &mut Report) {
    let mut reported = std::collections::BTreeSet::new();
    let mut push = |rep: &mut Report, kind: &str, site: &str, config: String, history: serde_json::Value, detail: String| {
        if reported.insert(format!("{kind}/{site}")) {
            rep.violations.push(Violation { property: prop.into(), kind: kind.into(), site: site.into(), config, history, detail, log: vec![] });
        }
    };
    // (limit, refresh period in microseconds): whole milliseconds, a fractional number of
    // milliseconds (2.5 ms), less than a millisecond (0.9 ms), Duration::MAX
    let cfgs: Vec<(usize, u64)> = tier.pick(
        vec![(1usize, 40_000u64), (2, 40_000), (50, 100_000), (1, FOREVER), (1, 2_500), (3, 900)],
        vec![(1usize, 40_000u64), (2, 40_000), (3, 40_000), (5, 20_000), (50, 100_000), (100, 40_000), (1, FOREVER), (2, FOREVER), (1, 1_000), (3, 2_000), (1, 2_500), (3, 2_500), (3, 900), (2, 10_500)],
    );
    for window in [WindowType::Fixed, WindowType::SlidingLog, WindowType::SlidingCounter] {
        for &(limit, period) in &cfgs {
            let site = wname(window);
            // burst instants are whole milliseconds: a quarter of the period, at least 1 ms
            let q = if period == FOREVER { 10 } else { (period / 4000).max(1) };
            // burst sizes: one short of the limit, the limit, twice the limit (at least 1 and 2)
            let sizes = [limit.saturating_sub(1).max(1), limit.max(1), (2 * limit).max(2)];
            let slots: Vec<u64> = (0..tier.pick(9u64, 13)).map(|i| i * q).collect();
            // every non-empty choice of up to 3 (quick) / 4 (thorough) slots, each with every size
            let max_b = tier.pick(3usize, 3);
            let mut patterns: Vec<Vec<(u64, usize)>> = vec![];
            fn rec(slots: &[u64], sizes: &[usize], start: usize, cur: &mut Vec<(u64, usize)>, max_b: usize, out: &mut Vec<Vec<(u64, usize)>>) {
                if !cur.is_empty() {
                    out.push(cur.clone());
                }
                if cur.len() == max_b {
                    return;
                }
                for i in start..slots.len() {
                    for &s in sizes {
                        cur.push((slots[i], s));
                        rec(slots, sizes, i + 1, cur, max_b, out);
                        cur.pop();
                    }
                }
            }
            rec(&slots, &sizes, 0, &mut vec![], max_b, &mut patterns);
            for pat in patterns {
                let (adm, decisions, problem) = run_pattern(window, limit, period, &pat);
                rep.evaluations += 1;
                let config = format!("ratelimiter bursts window={} limit={} period={} timeout=0", site, limit, if period == FOREVER { "Duration::MAX".to_string() } else { format!("{}ms", period as f64 / 1000.0) });
                let hist = json!({"bursts_ms_count": pat});
                if let Some(p) = problem {
                    push(rep, "undecided_in_first_poll", site, config.clone(), hist.clone(), p);
                    continue;
                }
                let admitted = decisions.iter().filter(|d| d.1).count();
                if admitted != adm.len() {
                    push(rep, "admitted_vs_inner_calls", site, config.clone(), hist.clone(), format!("{admitted} callers were admitted but the wrapped service was called {} times", adm.len()));
                }
                // admission instants in microseconds, like the period
                let pus = if period == FOREVER { u64::MAX / 4 } else { period };
                let adm_us: Vec<u64> = adm.iter().map(|t| t * 1000).collect();
                let ok = match window {
                    WindowType::SlidingLog => (0..adm_us.len()).all(|i| i + limit >= adm_us.len() || adm_us[i + limit] - adm_us[i] >= pus),
                    _ => limit > 0 && cut_exists(&adm_us, limit, pus) || limit == 0 && adm_us.is_empty(),
                };
                if !ok || (limit == 0 && !adm.is_empty()) {
                    push(rep, "window_overrun", site, config.clone(), hist.clone(), format!("admissions (ms) {:?} with limit_for_period {} per {}", adm, limit, if period == FOREVER { "Duration::MAX".to_string() } else { format!("{}ms", period as f64 / 1000.0) }));
                }
                if prop == "C15" && limit > 0 {
                    // spare capacity: fewer than `limit` admissions in the look-back window => admitted at once
                    // look-back in whole milliseconds, rounded up
                    let pm = if period == FOREVER { u64::MAX / 4 } else { period.div_ceil(1000) };
                    let lb = if period == FOREVER { pm } else if window == WindowType::SlidingCounter { 2 * pm } else { pm };
                    let mut seen: Vec<u64> = vec![];
                    for (t, a) in &decisions {
                        let recent = seen.iter().filter(|&&s| s.saturating_add(lb) > *t).count();
                        if recent < limit && !*a {
                            push(rep, "spare_capacity_not_admitted", site, config.clone(), hist.clone(), format!("a call at {t}ms was rejected although only {recent} calls were admitted in the last {lb}ms (limit {limit}); admissions so far {seen:?}"));
                            break;
                        }
                        if *a {
                            seen.push(*t);
                        }
                    }
                }
                rep.distinct.insert(format!("{config}|{adm:?}"));
                if adm.len() >= 2 * limit.max(1) {
                    rep.witness("burst_run_spanning_several_windows", 1);
                }
                if decisions.iter().any(|d| !d.1) {
                    rep.witness("burst_call_rejected", 1);
                }
            }
        }
    }
    // a limit beyond any internal table: one burst of limit + 300 calls at one instant, an
    // hour-long period; exactly `limit` are admitted
    // (quick: the sliding log, whose state grows with the limit; thorough: all three)
    for window in tier.pick(vec![WindowType::SlidingLog], vec![WindowType::Fixed, WindowType::SlidingLog, WindowType::SlidingCounter]) {
        let limit = 66_000usize;
        let period = 3_600_000_000u64;
        let (adm, decisions, problem) = run_pattern(window, limit, period, &[(0, limit + 300)]);
        rep.evaluations += 1;
        let site = wname(window);
        let config = format!("ratelimiter bursts window={} limit={} period=1h timeout=0 one burst of {}", site, limit, limit + 300);
        let hist = json!({"bursts_ms_count": [[0, limit + 300]]});
        if let Some(p) = problem {
            push(rep, "undecided_in_first_poll", site, config.clone(), hist.clone(), p);
            continue;
        }
        let admitted = decisions.iter().filter(|d| d.1).count();
        if admitted > limit || adm.len() > limit {
            push(rep, "window_overrun", site, config.clone(), hist.clone(), format!("{} of {} calls at one instant were admitted ({} reached the wrapped service) with limit_for_period {}", admitted, limit + 300, adm.len(), limit));
        }
        if prop == "C15" && admitted < limit {
            push(rep, "spare_capacity_not_admitted", site, config.clone(), hist.clone(), format!("only {admitted} of the first {limit} calls of a fresh window were admitted"));
        }
        rep.witness("burst_beyond_65536", 1);
    }
    extremes(prop, rep, &mut push);
}

/// Unrepresentable instants: refresh period and / or timeout of Duration::MAX, limit 1, two
/// calls at instant 0. The first is admitted at once; the second
/// * period MAX, timeout MAX: can never get a permit and never times out - it keeps waiting
///   (an hour of virtual time is observed); a rejection is tolerated, an admission or a panic
///   is not;
/// * period 40 ms, timeout MAX: is admitted when the next window opens (40..=80 ms);
/// * period MAX, timeout 1 h: is rejected, at the latest after the hour.
/// Each also under a clock that advances by a nanosecond per read (clock::set_drift): with a
/// clock that stands still within a poll `start.elapsed()` is exactly zero at the first
/// decision, which hides overflows of `elapsed + wait`.
fn extremes(prop: &'static str, rep: &mut Report, push: &mut dyn FnMut(&mut Report, &str, &str, String, serde_json::Value, String)) {
    const HOUR_MS: u64 = 3_600_000;
    for window in [WindowType::Fixed, WindowType::SlidingLog, WindowType::SlidingCounter] {
        for (period, timeout, drift) in [(None, None, false), (Some(40u64), None, false), (None, Some(HOUR_MS), false), (None, None, true), (Some(40u64), None, true), (None, Some(HOUR_MS), true)] {
            let site = wname(window);
            let config = format!(
                "ratelimiter extremes window={} limit=1 period={} timeout={}{}",
                site,
                period.map_or("Duration::MAX".to_string(), |p| format!("{p}ms")),
                timeout.map_or("Duration::MAX".to_string(), |t| format!("{t}ms")),
                if drift { " clock=advances-a-nanosecond-per-read" } else { "" }
            );
            let w = World::new(0, 10, Mode::Script, 1);
            trv_core::clock::set_drift(drift);
            let layer = RateLimiterLayer::builder()
                .limit_for_period(1)
                .refresh_period(period.map_or(Duration::MAX, Duration::from_millis))
                .timeout_duration(timeout.map_or(Duration::MAX, Duration::from_millis))
                .window_type(window)
                .build();
            let svc = layer.layer(GatedInner::new(w.inner.clone()));
            let mut outcomes: Vec<String> = vec![];
            for id in 1..=2u32 {
                let mut s = svc.clone();
                let _ = drive_ready::<_, Req>(&mut s, 4);
                let fut = s.call(Req::new(id, 0));
                let origin = w.origin;
                let r = std::panic::catch_unwind(std::panic::AssertUnwindSafe(|| {
                    w.block_on(async move {
                        // observe for two virtual hours
                        match tokio::time::timeout(Duration::from_millis(2 * HOUR_MS), fut).await {
                            Ok(Ok(_)) => format!("admitted@{}", origin.elapsed().as_millis()),
                            Ok(Err(RateLimiterServiceError::RateLimited)) => format!("rejected@{}", origin.elapsed().as_millis()),
                            Ok(Err(RateLimiterServiceError::Inner(_))) => "inner-error".to_string(),
                            Err(_) => "waiting".to_string(),
                        }
                    })
                }));
                outcomes.push(r.unwrap_or_else(|_| "panicked".to_string()));
            }
            trv_core::clock::set_drift(false);
            rep.evaluations += 1;
            rep.distinct.insert(format!("{config}|{outcomes:?}"));
            if std::env::var("VERIF_DEBUG_EXTREMES").is_ok() {
                eprintln!("{config}: {outcomes:?}");
            }
            let hist = json!({"two_calls_at_0ms": outcomes});
            let at = |o: &str| o.split('@').nth(1).and_then(|t| t.parse::<u64>().ok());
            let first_ok = outcomes[0] == "admitted@0";
            let second = outcomes[1].as_str();
            let second_ok = match (period, timeout) {
                (None, None) => second == "waiting" || second.starts_with("rejected"),
                (Some(p), None) => second.starts_with("admitted") && at(second).map_or(false, |t| t >= p && t <= 2 * p),
                (None, Some(t)) => second.starts_with("rejected") && at(second).map_or(false, |d| d <= t),
                _ => unreachable!(),
            };
            if !first_ok || !second_ok {
                let kind = if outcomes.iter().any(|o| o == "panicked") { "panic_with_unrepresentable_instant" } else if prop == "C02" { "window_overrun" } else { "extreme_configuration_decided_wrongly" };
                push(rep, kind, site, config, hist, format!("two calls at 0 ms: {:?}", outcomes));
            }
            rep.witness("extreme_period_or_timeout", 1);
        }
    }
}
