//! C02 / C15 — rate limiter: engine A over the real `RateLimiter<GatedInner>`.

use serde_json::json;
use std::collections::HashMap;
use std::time::Duration;
use tower::{Layer, Service};
use tower_resilience_ratelimiter::{RateLimiterLayer, RateLimiterServiceError, WindowType};
use trv_core::evidence::{Report, Tier};
use trv_core::inner::{GatedInner, Mode, Req};
use trv_core::svcx::{self, Action, Counts, Opts, Scenario, Viol};
use trv_core::world::{drive_ready, Outcome, Phase, World};

mod bursts;
mod threads;

trv_core::install_clock_seam!();

type Svc = tower_resilience_ratelimiter::RateLimiter<GatedInner>;

const PERIOD: u64 = 40;

#[derive(Clone)]
struct Rl {
    prop: &'static str,
    window: WindowType,
    limit: usize,
    timeout: u64,
    callers: usize,
    max_ticks: usize,
    max_drops: usize,
    /// the executor may poll woken waiters late (this many ticks may pass first)
    late_ticks: usize,
    /// depth bound of this configuration (None: the tier's default)
    depth: Option<usize>,
    /// refresh period and timeout are multiplied by this, and so is the explorer's time grid:
    /// 1 (period 40 ms), or 101 for the seconds-range configurations (period 4.04 s)
    scale: u64,
    /// every caller goes through the one original handle instead of a clone of its own
    single_handle: bool,
    /// the configuration starts from the `burst(..)` convenience constructor (sliding counter,
    /// 1 s period, 100 ms timeout) and overrides every setting afterwards
    from_preset: bool,
}

struct X {
    svc: Svc,
    /// (caller, admissions in the look-back window before its first poll)
    pre: Option<(usize, usize)>,
}

pub fn wname(w: WindowType) -> &'static str {
    match w {
        WindowType::Fixed => "fixed",
        WindowType::SlidingLog => "sliding_log",
        WindowType::SlidingCounter => "sliding_counter",
    }
}

pub fn admissions(w: &World) -> Vec<u64> {
    let g = w.inner.lock().unwrap();
    let mut v: Vec<u64> = g.calls.iter().map(|c| c.start_ms).collect();
    v.sort();
    v
}

fn has_inner(w: &World, c: usize) -> bool {
    match &w.callers[c].req {
        Some(r) => !w.inner_calls_for_req(r.id).is_empty(),
        None => false,
    }
}

/// Exists a cut of time into consecutive windows, each >= period long (the first one
/// unbounded to the left), each holding <= limit admissions?  Windows are closed on the
/// left.  Exact search (memoised) over which admission starts each window.
pub fn cut_exists(a: &[u64], limit: usize, period: u64) -> bool {
    // state: (index of first admission of the current window, earliest start of the *next* cut)
    fn go(a: &[u64], i: usize, min_next_cut: i64, limit: usize, period: u64, memo: &mut HashMap<(usize, i64), bool>) -> bool {
        let n = a.len();
        if n - i <= limit {
            return true;
        }
        if let Some(r) = memo.get(&(i, min_next_cut)) {
            return *r;
        }
        let mut ok = false;
        // the current window holds admissions i..j-1 (1..=limit of them), next window starts with j
        for j in (i + 1)..=(i + limit).min(n - 1) {
            // cut c with a[j-1] < c <= a[j], c >= min_next_cut; earliest is best for the future
            let c = (a[j - 1] as i64 + 1).max(min_next_cut);
            if c <= a[j] as i64 && go(a, j, c + period as i64, limit, period, memo) {
                ok = true;
                break;
            }
        }
        memo.insert((i, min_next_cut), ok);
        ok
    }
    let mut memo = HashMap::new();
    go(a, 0, i64::MIN / 2, limit, period, &mut memo)
}

fn do_arrive(w: &mut World, svc: &mut Svc, c: usize, single_handle: bool) {
    let mut own;
    let s: &mut Svc = if single_handle {
        svc
    } else {
        own = svc.clone();
        &mut own
    };
    let req = Req::new(c as u32, 0);
    match drive_ready::<_, Req>(s, 4) {
        Ok(Ok(())) => {}
        _ => panic!("ratelimiter poll_ready not ready"),
    }
    let fut = s.call(req.clone());
    let fut = Box::pin(async move {
        match fut.await {
            Ok(r) => Outcome::Ok(r),
            Err(RateLimiterServiceError::Inner(e)) => Outcome::Inner(e),
            Err(RateLimiterServiceError::RateLimited) => Outcome::Layer("RateLimited".into()),
        }
    });
    w.set_arrived(c, req, fut);
}

/// timeout value standing for `timeout_duration(Duration::MAX)`: always wait for a permit
const WAIT_FOR_EVER: u64 = u64::MAX / 4;

impl Rl {
    fn period(&self) -> u64 {
        PERIOD * self.scale
    }
    fn timeout_ms(&self) -> u64 {
        if self.timeout == WAIT_FOR_EVER {
            WAIT_FOR_EVER
        } else {
            self.timeout * self.scale
        }
    }
    fn timeout_dur(&self) -> Duration {
        if self.timeout == WAIT_FOR_EVER {
            Duration::MAX
        } else {
            Duration::from_millis(self.timeout_ms())
        }
    }
    /// admissions that any implementation must count against a caller arriving now
    fn lookback(&self) -> u64 {
        match self.window {
            WindowType::SlidingCounter => 2 * self.period(),
            _ => self.period(),
        }
    }
    fn recent_admissions(&self, w: &World) -> usize {
        let now = w.now_ms();
        let lb = self.lookback();
        admissions(w).iter().filter(|&&t| t + lb > now).count()
    }
}

impl Scenario for Rl {
    type X = X;
    fn property(&self) -> &'static str {
        self.prop
    }
    fn label(&self) -> String {
        format!("ratelimiter window={} limit={} period={}ms timeout={}ms callers={}{}", wname(self.window), self.limit, self.period(), self.timeout_ms(), self.callers, if self.late_ticks > 0 { " late-polls" } else if self.depth.is_some() { " long-run" } else if self.single_handle { " one-handle" } else if self.from_preset { " from-burst()-preset" } else { "" })
    }
    fn callers(&self) -> usize {
        self.callers
    }
    fn mode(&self) -> Mode {
        Mode::Script
    }
    fn late_ticks(&self) -> usize {
        self.late_ticks
    }
    fn grid_ms(&self) -> u64 {
        10 * self.scale
    }
    fn init(&self, w: &mut World) -> X {
        // (timeouts 60 ms and Duration::MAX: an inner instance that is asked for readiness a second
        // time before it was called answers with an error)
        w.inner.lock().unwrap().second_ready_check_fails = self.timeout == 60 || self.timeout == WAIT_FOR_EVER;
        // (timeouts 40 and 100 ms: a no-op listener is registered for every event type)
        let with_listeners = self.timeout == 40 || self.timeout == 100;
        let start = if self.from_preset { RateLimiterLayer::burst(3, 4) } else { RateLimiterLayer::builder() };
        // (timeouts 60 and 100 ms - above the period - issue the setters in the reverse order: a
        // setting must not depend on what was set before or after it)
        let layer = if self.timeout == 60 || self.timeout == 100 {
            start.window_type(self.window).timeout_duration(self.timeout_dur()).refresh_period(Duration::from_millis(self.period())).limit_for_period(self.limit)
        } else {
            start.limit_for_period(self.limit).refresh_period(Duration::from_millis(self.period())).timeout_duration(self.timeout_dur()).window_type(self.window)
        };
        let layer = if with_listeners { layer.on_permit_acquired(|_| {}).on_permit_rejected(|_| {}).on_permits_refreshed(|_| {}) } else { layer };
        let layer = layer.build();
        X { svc: layer.clone().layer(GatedInner::new(w.inner.clone())), pre: None }
    }
    fn arrive(&self, w: &mut World, x: &mut X, c: usize, _v: u8) {
        do_arrive(w, &mut x.svc, c, self.single_handle);
    }
    fn allow(&self, _w: &World, _x: &X, h: &[Action], a: &Action) -> bool {
        let c = Counts::of(h);
        match a {
            Action::Tick => c.ticks < self.max_ticks,
            Action::Drop(_) => c.drops < self.max_drops,
            _ => true,
        }
    }
    fn fingerprint(&self, w: &World, _x: &X) -> String {
        // hidden limiter state is a function of the instants of all acquire attempts and admissions
        let mut s = format!("adm{:?}|", admissions(w));
        for c in &w.callers {
            s.push_str(&format!("{:?}/{:?}/{:?};", c.first_poll_ms, c.done_ms, c.dropped_ms));
        }
        s
    }
    fn before(&self, w: &World, x: &mut X, a: &Action) {
        x.pre = None;
        if let Action::Poll(c) = a {
            let c = *c as usize;
            if w.callers[c].polls == 0 {
                x.pre = Some((c, self.recent_admissions(w)));
            }
        }
    }
    fn after(&self, w: &mut World, x: &mut X, _a: &Action, out: &mut Vec<Viol>) {
        let site = wname(self.window);
        let now = w.now_ms();
        let adm = admissions(w);
        // ---- C02: the admission instants respect the window
        match self.window {
            WindowType::SlidingLog => {
                for i in 0..adm.len() {
                    if i + self.limit < adm.len() && adm[i + self.limit] - adm[i] < self.period() {
                        out.push(Viol::new(
                            "window_overrun",
                            site,
                            format!("admissions {:?}: {} consecutive admissions span {}ms < period {}ms (limit {})", adm, self.limit + 1, adm[i + self.limit] - adm[i], self.period(), self.limit),
                        ));
                        break;
                    }
                }
            }
            _ => {
                if !cut_exists(&adm, self.limit, self.period()) {
                    out.push(Viol::new(
                        "window_overrun",
                        site,
                        format!("admissions {:?}: no cut into consecutive windows >= {}ms with <= {} admissions each exists", adm, self.period(), self.limit),
                    ));
                }
            }
        }
        if self.prop == "C02" {
            return;
        }
        // ---- C15
        if let Some((c, recent)) = x.pre {
            if recent < self.limit && !has_inner(w, c) {
                out.push(Viol::new(
                    "spare_capacity_not_admitted",
                    site,
                    format!("caller {c} arrived at {now} with only {recent} admissions in the last {}ms (limit {}), but was not admitted at once ({:?})", self.lookback(), self.limit, w.callers[c].phase),
                ));
            }
        }
        for (c, cl) in w.callers.iter().enumerate() {
            let Some(fp) = cl.first_poll_ms else { continue };
            let calls = cl.req.as_ref().map(|r| w.inner_calls_for_req(r.id)).unwrap_or_default();
            if calls.len() > 1 {
                out.push(Viol::new("admitted_twice", site, format!("caller {c} reached the inner service {} times", calls.len())));
            }
            let admitted_at = calls.first().map(|&k| w.inner.lock().unwrap().calls[k].start_ms);
            match &cl.phase {
                Phase::Done(Outcome::Layer(_)) => {
                    if !calls.is_empty() {
                        out.push(Viol::new("rejected_reached_inner", site, format!("caller {c} was rejected but reached the inner service")));
                    }
                    let d = cl.done_ms.unwrap();
                    // "... and otherwise rejected": for the sliding log the instant at which a
                    // slot opens is fixed by the admissions alone (the limit-th newest one ages
                    // out), so a caller that nobody competes with must not be rejected when
                    // that instant lies within its timeout
                    if self.window == WindowType::SlidingLog && self.late_ticks == 0 {
                        let before: Vec<u64> = adm.iter().copied().filter(|t| *t <= d).collect();
                        if before.len() >= self.limit {
                            let t_open = before[before.len() - self.limit] + self.period();
                            let alone = w.callers.iter().enumerate().all(|(o, ol)| {
                                if o == c {
                                    return true;
                                }
                                let Some(ofp) = ol.first_poll_ms else { return true };
                                // the other caller was decided in its first poll, or came after the slot opened
                                let o_adm = ol.req.as_ref().and_then(|r| w.inner_calls_for_req(r.id).first().map(|&k| w.inner.lock().unwrap().calls[k].start_ms));
                                ofp > t_open || o_adm == Some(ofp) || (ol.done_ms == Some(ofp) && o_adm.is_none())
                            });
                            if alone && t_open <= fp + self.timeout_ms() && t_open >= fp {
                                out.push(Viol::new(
                                    "rejected_although_a_slot_opens_in_time",
                                    site,
                                    format!("caller {c} arrived at {fp} (timeout {}ms) and was rejected at {d}, although with admissions {:?} a slot opens at {t_open} and nobody else was waiting for it", self.timeout_ms(), before),
                                ));
                            }
                        }
                    }
                    if self.late_ticks == 0 && d > fp + self.timeout_ms() {
                        out.push(Viol::new("decided_after_timeout", site, format!("caller {c} arrived {fp}, rejected at {d}, timeout {}", self.timeout_ms())));
                    }
                }
                Phase::Done(Outcome::Ok(_)) | Phase::Done(Outcome::Inner(_)) => {
                    if calls.len() != 1 {
                        out.push(Viol::new("admitted_without_inner_call", site, format!("caller {c} resolved with an inner outcome but made {} inner calls", calls.len())));
                    }
                }
                Phase::Live => {
                    if self.late_ticks == 0 && admitted_at.is_none() && now > fp + self.timeout_ms() {
                        out.push(Viol::new("undecided_after_timeout", site, format!("caller {c} arrived {fp}, still undecided at {now}, timeout {}", self.timeout_ms())));
                    }
                }
                _ => {}
            }
            if let Some(t) = admitted_at {
                if self.late_ticks == 0 && t > fp + self.timeout_ms() {
                    out.push(Viol::new("decided_after_timeout", site, format!("caller {c} arrived {fp}, admitted at {t}, timeout {}", self.timeout_ms())));
                }
            }
            if let (Phase::Dropped, Some(d)) = (&cl.phase, cl.dropped_ms) {
                if let Some(t) = admitted_at {
                    if t > d {
                        out.push(Viol::new("cancelled_reached_inner", site, format!("caller {c} dropped at {d} but admitted at {t}")));
                    }
                }
            }
        }
    }
    fn witnesses(&self, w: &World, _x: &X, h: &[Action]) -> Vec<&'static str> {
        let mut v = vec![];
        let waiting: Vec<usize> = (0..w.callers.len()).filter(|&c| w.callers[c].is_live() && w.callers[c].polls > 0 && !has_inner(w, c)).collect();
        if waiting.len() >= 2 {
            v.push("two_callers_waiting");
        }
        if waiting.iter().filter(|&&c| w.callers[c].flag_set()).count() >= 2 {
            v.push("two_waiters_woken_at_one_instant");
        }
        if w.callers.iter().any(|c| matches!(&c.phase, Phase::Done(Outcome::Layer(_)))) {
            v.push("rejected");
        }
        for (c, cl) in w.callers.iter().enumerate() {
            if let (Some(fp), Some(r)) = (cl.first_poll_ms, &cl.req) {
                let calls = w.inner_calls_for_req(r.id);
                if let Some(&k) = calls.first() {
                    let t = w.inner.lock().unwrap().calls[k].start_ms;
                    if t > fp {
                        v.push("admitted_after_waiting");
                    }
                    if fp % self.period() == 0 && fp > 0 && t == fp {
                        v.push("admitted_on_period_boundary");
                    }
                }
                let _ = c;
            }
        }
        if let Some(Action::Drop(c)) = h.last() {
            let c = *c as usize;
            if w.callers[c].polls > 0 && !has_inner(w, c) {
                v.push("drop_while_waiting");
            }
        }
        if w.late_ticks > 0 {
            v.push("time_passed_while_a_woken_waiter_was_unpolled");
        }
        v
    }
    fn epilogue(&self, w: &mut World, x: &mut X, out: &mut Vec<Viol>) -> String {
        let site = wname(self.window);
        if !svcx::drain(w, 40) {
            out.push(Viol::new("caller_never_resolves", site, format!("callers {:?} unresolved after draining", w.live_callers())));
            return "stuck".into();
        }
        let mut v = vec![];
        self.after(w, x, &Action::Tick, &mut v);
        out.extend(v);
        let sig: Vec<String> = w.callers.iter().map(|c| match &c.phase { Phase::Done(o) => o.tag(), p => format!("{p:?}") }).collect();
        if self.prop == "C15" {
            // idle for two full periods, then `limit` arrivals must all be admitted at once
            w.advance(2 * self.period());
            let base = w.callers.len();
            let mut ok = vec![];
            for i in 0..self.limit {
                let c = w.add_caller();
                debug_assert_eq!(c, base + i);
                w.begin_step();
                do_arrive(w, &mut x.svc, c, self.single_handle);
                w.poll_caller(c);
                ok.push(has_inner(w, c));
            }
            if ok.iter().any(|b| !b) {
                out.push(Viol::new("idle_limiter_not_full", site, format!("after two idle periods a burst of {} was admitted as {:?}", self.limit, ok)));
            }
            for c in base..w.callers.len() {
                if w.callers[c].is_live() {
                    w.drop_caller(c);
                }
            }
        }
        format!("{:?}|{:?}", sig, admissions(w))
    }
}

fn configs(prop: &'static str, tier: Tier) -> Vec<Rl> {
    let mut v = vec![];
    for window in [WindowType::Fixed, WindowType::SlidingLog, WindowType::SlidingCounter] {
        for limit in [1usize, 2] {
            for timeout in [0u64, 10, 40, 60, 100] {
                // thorough: four callers for both limits (five callers with limit 2 exceed the
                // state cap at depth 22 without adding a new kind of race)
                let callers = match tier {
                    Tier::Quick => limit + 2,
                    Tier::Thorough => 4,
                };
                v.push(Rl { prop, window, limit, timeout, callers, max_ticks: tier.pick(9, 12), max_drops: tier.pick(1, 2), late_ticks: 0, depth: None, scale: 1, single_handle: false, from_preset: false });
            }
        }
        // a long, drop-free run over more than two periods with limit 2 (quick tier: the
        // general configurations stop at 9 ticks): bucket bookkeeping that drifts with the
        // instants of the calls shows only after a call in the middle of the second period
        if tier == Tier::Quick && window == WindowType::SlidingCounter {
            v.push(Rl { prop, window, limit: 2, timeout: 10, callers: 4, max_ticks: 11, max_drops: 0, late_ticks: 0, depth: Some(18), scale: 1, single_handle: false, from_preset: false });
        }
        // thorough: every window type over four and a half periods, three callers, no drops
        if tier == Tier::Thorough {
            for (limit, timeout) in [(1usize, 10u64), (2, 10), (1, 40), (2, 40)] {
                v.push(Rl { prop, window, limit, timeout, callers: 3, max_ticks: 18, max_drops: 0, late_ticks: 0, depth: Some(26), scale: 1, single_handle: false, from_preset: false });
            }
        }
        // configured from the burst(..) convenience constructor, every setting overridden
        v.push(Rl { prop, window, limit: 1, timeout: 40, callers: 3, max_ticks: tier.pick(6, 9), max_drops: 1, late_ticks: 0, depth: None, scale: 1, single_handle: false, from_preset: true });
        // "always wait": timeout_duration = Duration::MAX
        v.push(Rl { prop, window, limit: 1, timeout: WAIT_FOR_EVER, callers: 3, max_ticks: tier.pick(9, 12), max_drops: 1, late_ticks: 0, depth: None, scale: 1, single_handle: false, from_preset: false });
        // everything in the seconds range: period 4.04 s, timeouts 1.01 s and 6.06 s, on a 1.01 s grid
        for timeout in [10u64, 60] {
            v.push(Rl { prop, window, limit: 1, timeout, callers: 3, max_ticks: tier.pick(9, 12), max_drops: 1, late_ticks: 0, depth: None, scale: 101, single_handle: false, from_preset: false });
        }
        // all callers through the one original handle
        v.push(Rl { prop, window, limit: 1, timeout: 40, callers: 3, max_ticks: tier.pick(6, 9), max_drops: 1, late_ticks: 0, depth: None, scale: 1, single_handle: true, from_preset: false });
        // a late executor: waiters woken for the next window are polled up to two ticks late
        // (the decided-within-timeout clause presupposes prompt polling and is not judged here)
        for timeout in tier.pick(vec![100u64], vec![40, 100]) {
            v.push(Rl { prop, window, limit: 1, timeout, callers: 3, max_ticks: tier.pick(8, 10), max_drops: tier.pick(0, 1), late_ticks: 2, depth: None, scale: 1, single_handle: false, from_preset: false });
        }
    }
    v
}

fn main() {
    trv_core::startup();
    let cli = trv_core::parse_cli();
    let prop: &'static str = match cli.property.as_str() {
        "C02" => "C02",
        "C15" => "C15",
        p => {
            eprintln!("p-ratelimiter serves C02 and C15, not {p}");
            std::process::exit(2);
        }
    };
    if let Some(path) = cli.replay {
        // a recorded thread schedule (engine B part)?
        let v = trv_core::load_replay(&path);
        if let Some(ch) = v["history"]["thread_schedule"].as_array() {
            let choices: Vec<usize> = ch.iter().filter_map(|x| x.as_u64().map(|u| u as usize)).collect();
            match threads::replay(prop, v["config"].as_str().unwrap_or(""), &choices, v["kind"].as_str().unwrap_or("")) {
                Some(true) => {
                    println!("VIOLATION property={prop} replay={path}");
                    std::process::exit(1);
                }
                Some(false) => {
                    println!("replay: the recorded violation does not occur on the current tree");
                    std::process::exit(0);
                }
                None => {
                    eprintln!("MACHINERY no thread configuration with that label");
                    std::process::exit(2);
                }
            }
        }
        // thorough configurations first: same labels as quick ones, larger budgets
        let mut c = configs(prop, Tier::Thorough);
        c.extend(configs(prop, Tier::Quick));
        svcx::replay_main(prop, &path, c);
    }
    let tier = cli.tier;
    let mut rep = Report::new(prop, tier, "model_checking");
    rep.rule = "BFS over action histories {Arrive,Poll,Drop,Tick} of the real RateLimiter (all three window types) under virtual time; the admission instants of every state are judged by a window-cut / spacing oracle that does not mirror the implementation".into();
    rep.assumptions = vec![
        "prompt executor; 'arrival' is the first poll of the call future (the late-polls configurations let up to two ticks pass while a woken waiter is unpolled; only the window, exactly-once and not-after-rejection clauses are judged there)".into(),
        "inner service resolves at once, so admission instant = inner call instant".into(),
    ];
    for w in ["two_callers_waiting", "two_waiters_woken_at_one_instant", "rejected", "admitted_after_waiting", "admitted_on_period_boundary", "drop_while_waiting", "time_passed_while_a_woken_waiter_was_unpolled"] {
        rep.require_witness(w);
    }
    let depth = tier.pick(16, 22);
    rep.bounds = json!({"depth": depth, "period_ms": PERIOD, "grid_ms": 10, "max_ticks": tier.pick(9,12), "callers": "limit+2 (quick) / 4 (thorough)"});
    for cfg in configs(prop, tier) {
        let opts = Opts { max_depth: cfg.depth.unwrap_or(depth), time_cap: Duration::from_secs(tier.pick(30, 600)), ..Opts::default() };
        let ex = svcx::explore(&cfg, &opts, &mut rep);
        if tier == Tier::Thorough && cfg.limit == 1 {
            svcx::validate_abstraction(&cfg, 7, &ex.fingerprints, ex.depth_completed, &mut rep);
        }
    }
    // burst grid: long timeout-0 runs, large limits, extreme configurations
    bursts::run(prop, tier, &mut rep);
    rep.require_witness("burst_run_spanning_several_windows");
    rep.require_witness("burst_call_rejected");
    // thread level: all interleavings of the critical sections of concurrent acquisitions
    threads::run(prop, tier, &mut rep);
    rep.require_witness("thread_schedules_with_preemption");
    rep.require_witness("thread_config_with_several_outcomes");
    rep.assumptions.push("thread level (engine B): scheduling points are the lock acquisitions of the limiter's mutex (repo feature verif-hooks); sequentially consistent memory; timeout 0 and an hour-long period, so every call is decided in its first poll".into());
    trv_core::finish(rep);
}
