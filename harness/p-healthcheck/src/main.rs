//! C18 — health status flips only at its thresholds; selection returns eligible resources
//! (engine C: history BFS against a reference model + a full selection grid).

use serde_json::json;
use std::sync::atomic::{AtomicUsize, Ordering};
use std::sync::{Arc, Mutex};
use std::time::Duration;
use tower_resilience_healthcheck::{HealthCheckWrapper, HealthStatus, SelectionStrategy};
use trv_core::evidence::{Report, Tier, Violation};
use trv_core::inner::Mode;
use trv_core::seq::{self, SeqOut, SeqScenario};
use trv_core::svcx::Viol;
use trv_core::world::World;

trv_core::install_clock_seam!();

const INTERVAL: u64 = 100;
const TIMEOUT: u64 = 30;

#[derive(Clone, Copy, Debug, PartialEq, Eq)]
enum Chk {
    Healthy,
    Degraded,
    Unhealthy,
    Unknown,
    /// answers healthy, but only after the check timeout
    Slow,
}

const ALPHA: [Chk; 5] = [Chk::Healthy, Chk::Unhealthy, Chk::Degraded, Chk::Unknown, Chk::Slow];

#[derive(Clone, Debug, PartialEq)]
struct Model {
    status: HealthStatus,
    fails: u64,
    succ: u64,
}

impl Model {
    fn step(&mut self, c: Chk, ft: u32, st: u32) {
        match c {
            Chk::Healthy => {
                self.succ += 1;
                self.fails = 0;
                if self.succ >= st as u64 {
                    self.status = HealthStatus::Healthy;
                }
            }
            Chk::Degraded => {
                self.succ += 1;
                self.fails = 0;
                self.status = HealthStatus::Degraded;
            }
            Chk::Unhealthy | Chk::Slow => {
                self.fails += 1;
                self.succ = 0;
                if self.fails >= ft as u64 {
                    self.status = HealthStatus::Unhealthy;
                }
            }
            Chk::Unknown => {}
        }
    }
}

type Script = Arc<Mutex<Vec<Chk>>>;

fn make_checker(script: Script, idx: Arc<AtomicUsize>) -> impl Fn(&String) -> std::pin::Pin<Box<dyn std::future::Future<Output = HealthStatus> + Send>> + Send + Sync {
    move |_r: &String| {
        let i = idx.fetch_add(1, Ordering::SeqCst);
        let c = script.lock().unwrap().get(i).copied();
        Box::pin(async move {
            match c {
                Some(Chk::Healthy) => HealthStatus::Healthy,
                Some(Chk::Degraded) => HealthStatus::Degraded,
                Some(Chk::Unhealthy) => HealthStatus::Unhealthy,
                Some(Chk::Unknown) | None => HealthStatus::Unknown,
                Some(Chk::Slow) => {
                    tokio::time::sleep(Duration::from_millis(TIMEOUT + 20)).await;
                    HealthStatus::Healthy
                }
            }
        })
    }
}

struct Hist {
    ft: u32,
    st: u32,
}

impl SeqScenario for Hist {
    fn property(&self) -> &'static str {
        "C18"
    }
    fn label(&self) -> String {
        format!("health status failure_threshold={} success_threshold={}", self.ft, self.st)
    }
    fn ops(&self) -> Vec<String> {
        ALPHA.iter().map(|c| format!("{c:?}").to_lowercase()).collect()
    }
    fn run(&self, hist: &[usize], trace: bool) -> SeqOut {
        let site = "status";
        let mut w = World::new(0, 10, Mode::Script, 1);
        let script: Script = Arc::new(Mutex::new(hist.iter().map(|&i| ALPHA[i]).collect()));
        let idx = Arc::new(AtomicUsize::new(0));
        let wrapper = HealthCheckWrapper::builder()
            .with_context("r0".to_string(), "r0")
            .with_checker(make_checker(script, idx.clone()))
            .with_interval(Duration::from_millis(INTERVAL))
            .with_initial_delay(Duration::ZERO)
            .with_timeout(Duration::from_millis(TIMEOUT))
            .with_failure_threshold(self.ft)
            .with_success_threshold(self.st)
            .build();
        let mut model = Model { status: HealthStatus::Unknown, fails: 0, succ: 0 };
        let mut viols = vec![];
        let mut log = vec![];
        let mut outcome = String::new();
        let mut witnesses = vec![];
        if !hist.is_empty() {
            w.block_on(wrapper.start());
            w.settle();
        }
        for (step, &oi) in hist.iter().enumerate() {
            // sample half-way between check k and check k+1
            w.advance(if step == 0 { INTERVAL / 2 } else { INTERVAL });
            let before = model.clone();
            model.step(ALPHA[oi], self.ft, self.st);
            let st = w.block_on(wrapper.get_status("r0"));
            let det = w.block_on(wrapper.get_health_details());
            let checks_done = idx.load(Ordering::SeqCst);
            if trace {
                log.push(format!("{:>5}ms check #{} answered {:?} -> published {:?} details {:?} (model {:?})", w.now_ms(), step + 1, ALPHA[oi], st, det.first().map(|d| (d.status, d.consecutive_failures, d.consecutive_successes)), model));
            }
            if checks_done != step + 1 {
                viols.push(Viol::new("check_cadence", site, format!("{checks_done} checks ran in {} intervals", step + 1)));
                break;
            }
            if st != Some(model.status) {
                let kind = match (before.status, st, model.status) {
                    (_, Some(HealthStatus::Unhealthy), m) if m != HealthStatus::Unhealthy => "unhealthy_before_threshold",
                    (_, Some(HealthStatus::Healthy), m) if m != HealthStatus::Healthy => "healthy_before_threshold",
                    (b, Some(s), _) if Some(b) == Some(s) => "status_not_updated",
                    _ => "status_mismatch",
                };
                viols.push(Viol::new(
                    kind,
                    site,
                    format!("after checks {:?} the published status is {:?}, the documented rule gives {:?} (failure_threshold {}, success_threshold {})", hist.iter().map(|&i| ALPHA[i]).collect::<Vec<_>>(), st, model.status, self.ft, self.st),
                ));
                break;
            }
            if det.len() != 1 || det[0].status != model.status {
                viols.push(Viol::new("details_disagree", site, format!("get_health_details {:?} vs get_status {:?}", det.first().map(|d| d.status), st)));
                break;
            }
            if step + 1 == hist.len() {
                outcome = format!("{:?}->{:?}", before.status, model.status);
                if before.status != model.status {
                    witnesses.push("status_changed");
                }
                if ALPHA[oi] == Chk::Slow {
                    witnesses.push("check_timed_out");
                }
                if ALPHA[oi] == Chk::Unhealthy && before.status != HealthStatus::Unhealthy && model.status != HealthStatus::Unhealthy {
                    witnesses.push("failure_below_threshold_kept_status");
                }
                if ALPHA[oi] == Chk::Healthy && model.status != HealthStatus::Healthy {
                    witnesses.push("success_below_threshold_kept_status");
                }
            }
        }
        let cap = (self.ft.max(self.st) + 1) as u64;
        let det = w.block_on(wrapper.get_health_details());
        let imp = det.first().map(|d| (d.status, d.consecutive_failures.min(cap), d.consecutive_successes.min(cap)));
        w.block_on(wrapper.stop());
        let key = format!("{:?}/{}/{}|{:?}", model.status, model.fails.min(cap), model.succ.min(cap), imp);
        SeqOut { key, viols, outcome, witnesses, log, enabled: None }
    }
}

fn status_of(c: u8) -> HealthStatus {
    match c {
        0 => HealthStatus::Healthy,
        1 => HealthStatus::Degraded,
        2 => HealthStatus::Unhealthy,
        _ => HealthStatus::Unknown,
    }
}

/// Selection grid: `n` resources driven to every status vector (and, with `second`, from every
/// vector on to every other vector one check later), every strategy.
fn selection_grid(rep: &mut Report, n: usize, second: bool) {
    let strategies: Vec<(&str, SelectionStrategy)> = vec![
        ("first_available", SelectionStrategy::FirstAvailable),
        ("round_robin", SelectionStrategy::RoundRobin),
        ("prefer_healthy", SelectionStrategy::PreferHealthy),
        ("custom_last", SelectionStrategy::Custom(Arc::new(|s: &[HealthStatus]| if s.is_empty() { None } else { Some(s.len() - 1) }))),
    ];
    let total = 4usize.pow(n as u32);
    let decode = |code: usize| -> Vec<u8> { (0..n).map(|i| ((code / 4usize.pow(i as u32)) % 4) as u8).collect() };
    let mut reported = std::collections::BTreeSet::new();
    for (sname, strat) in strategies {
        for code in 0..total {
            let seconds: Vec<Option<usize>> = if second { (0..total).map(Some).collect() } else { vec![None] };
            for code2 in seconds {
                let v1 = decode(code);
                let w = World::new(0, 10, Mode::Script, 1);
                let current: Arc<Mutex<Vec<u8>>> = Arc::new(Mutex::new(v1.clone()));
                let cur = current.clone();
                let checker = move |r: &String| {
                    let i: usize = r[1..].parse().unwrap();
                    let s = status_of(cur.lock().unwrap()[i]);
                    async move { s }
                };
                let mut b = HealthCheckWrapper::builder();
                for i in 0..n {
                    b = b.with_context(format!("r{i}"), format!("r{i}"));
                }
                let wrapper = b
                    .with_checker(checker)
                    .with_interval(Duration::from_millis(INTERVAL))
                    .with_initial_delay(Duration::ZERO)
                    .with_timeout(Duration::from_millis(TIMEOUT))
                    .with_failure_threshold(1)
                    .with_success_threshold(1)
                    .with_selection_strategy(strat.clone())
                    .build();
                w.block_on(wrapper.start());
                w.block_on(async { tokio::time::sleep(Duration::from_millis(INTERVAL / 2)).await });
                let mut viols: Vec<(String, String)> = vec![];
                // expected published status per resource: an unknown result changes nothing
                let mut expected: Vec<HealthStatus> = v1.iter().map(|c| status_of(*c)).collect();
                let phases: Vec<Vec<u8>> = match code2 {
                    Some(c2) => vec![v1.clone(), decode(c2)],
                    None => vec![v1.clone()],
                };
                for (ph, vnow) in phases.iter().enumerate() {
                    if ph == 1 {
                        *current.lock().unwrap() = vnow.clone();
                        w.block_on(async { tokio::time::sleep(Duration::from_millis(INTERVAL)).await });
                        for i in 0..n {
                            if status_of(vnow[i]) != HealthStatus::Unknown {
                                expected[i] = status_of(vnow[i]);
                            }
                        }
                    }
                    let published = w.block_on(wrapper.get_all_statuses());
                    let healthy: Vec<String> = published.iter().filter(|(_, s)| *s == HealthStatus::Healthy).map(|(n, _)| n.clone()).collect();
                    let usable: Vec<String> = published.iter().filter(|(_, s)| matches!(s, HealthStatus::Healthy | HealthStatus::Degraded)).map(|(n, _)| n.clone()).collect();
                    for (i, (name, s)) in published.iter().enumerate() {
                        if *s != expected[i] {
                            viols.push(("status_mismatch".into(), format!("{name} published {:?}, the documented rule gives {:?} (check answers so far {:?})", s, expected[i], &phases[..=ph])));
                        }
                    }
                    for (which, set) in [("get_healthy", &healthy), ("get_usable", &usable)] {
                        let mut picks = vec![];
                        let rounds = 2 * set.len().max(1);
                        for _ in 0..rounds {
                            let p = if which == "get_healthy" { w.block_on(wrapper.get_healthy()) } else { w.block_on(wrapper.get_usable()) };
                            rep.evaluations += 1;
                            match &p {
                                None => {
                                    if !set.is_empty() {
                                        viols.push(("none_although_eligible".into(), format!("{which} returned None with eligible set {set:?}")));
                                    }
                                }
                                Some(r) => {
                                    if !set.contains(r) {
                                        viols.push(("ineligible_selected".into(), format!("{which} returned {r}, eligible set {set:?} (statuses {published:?})")));
                                    }
                                }
                            }
                            picks.push(p);
                        }
                        if sname == "round_robin" && set.len() >= 2 {
                            // any n consecutive selections over a stable eligible set of size n visit each member once
                            let k = set.len();
                            for win in picks.windows(k) {
                                let mut seen: Vec<String> = win.iter().flatten().cloned().collect();
                                seen.sort();
                                seen.dedup();
                                if seen.len() != k {
                                    viols.push(("round_robin_uneven".into(), format!("{which}: {k} consecutive selections {win:?} over eligible set {set:?}")));
                                    break;
                                }
                            }
                            rep.witness("round_robin_over_several", 1);
                            if ph == 1 {
                                rep.witness("round_robin_after_the_eligible_set_changed", 1);
                            }
                        }
                        rep.distinct.insert(format!("{sname}|{:?}|{which}|{:?}", &phases[..=ph], picks.first()));
                    }
                    if healthy.is_empty() {
                        rep.witness("no_healthy_resource", 1);
                    }
                }
                w.block_on(wrapper.stop());
                for (kind, detail) in viols {
                    if reported.insert(format!("{kind}/{sname}")) {
                        rep.violations.push(Violation {
                            property: "C18".into(),
                            kind,
                            site: sname.into(),
                            config: format!("selection strategy={sname} resources={n}"),
                            history: json!({"statuses": phases.iter().map(|v| v.iter().map(|c| format!("{:?}", status_of(*c))).collect::<Vec<_>>()).collect::<Vec<_>>()}),
                            detail,
                            log: vec![],
                        });
                    }
                }
            }
        }
    }
}

/// Check timeouts, with the configuration given both ways (the wrapper builder's own setters
/// and a HealthCheckConfig built separately and passed with `with_config`): a check that
/// answers within its timeout counts with its answer - also when the timeout is longer than
/// the check interval - and a check that takes longer than its timeout counts as a failure.
fn timeout_grid(rep: &mut Report) {
    use tower_resilience_healthcheck::HealthCheckConfig;
    let mut reported = std::collections::BTreeSet::new();
    // (interval ms, timeout ms, how long every check takes ms, the status every check must end in)
    // (the fifth: a timeout above the interval and every round overrunning the interval by
    // more than timeout - takes, so that a deadline measured from the scheduled tick instead of
    // from the start of the check would cut the next check short)
    let cases: [(u64, u64, u64, HealthStatus); 7] = [
        // (no check timeout at all: Duration::MAX)
        (100, u64::MAX, 20, HealthStatus::Healthy),
        (40, 100, 60, HealthStatus::Healthy),
        (40, 100, 130, HealthStatus::Unhealthy),
        (100, 30, 20, HealthStatus::Healthy),
        (100, 30, 50, HealthStatus::Unhealthy),
        (100, 250, 200, HealthStatus::Healthy),
        (100, 250, 240, HealthStatus::Healthy),
    ];
    for via_config in [false, true] {
        for (interval, timeout, takes, want) in cases.iter().copied() {
            let w = World::new(0, 10, Mode::Script, 1);
            let checker = move |_r: &String| async move {
                tokio::time::sleep(Duration::from_millis(takes)).await;
                HealthStatus::Healthy
            };
            let b = HealthCheckWrapper::builder().with_context("r0".to_string(), "r0").with_checker(checker);
            let wrapper = if via_config {
                b.with_config(HealthCheckConfig::builder().interval(Duration::from_millis(interval)).initial_delay(Duration::ZERO).timeout(if timeout == u64::MAX { Duration::MAX } else { Duration::from_millis(timeout) }).failure_threshold(1).success_threshold(1).build()).build()
            } else {
                b.with_interval(Duration::from_millis(interval)).with_initial_delay(Duration::ZERO).with_timeout(if timeout == u64::MAX { Duration::MAX } else { Duration::from_millis(timeout) }).with_failure_threshold(1).with_success_threshold(1).build()
            };
            w.block_on(wrapper.start());
            // long enough for several checks to have been decided either way; the published status
            // is sampled every 10 ms: it must never be anything but unknown (before the first
            // decision) or the expected one
            let mut st = None;
            let mut wrong: Option<(u64, HealthStatus)> = None;
            for step in 0..(6 * (interval + if timeout == u64::MAX { 0 } else { timeout } + takes) / 10) {
                w.block_on(async { tokio::time::sleep(Duration::from_millis(10)).await });
                st = w.block_on(wrapper.get_status("r0"));
                if let Some(s) = st {
                    if s != want && s != HealthStatus::Unknown && wrong.is_none() {
                        wrong = Some(((step + 1) * 10, s));
                    }
                }
            }
            if let Some((_, s)) = wrong {
                st = Some(s);
            }
            w.block_on(wrapper.stop());
            rep.evaluations += 1;
            rep.distinct.insert(format!("timeouts|{via_config}|{interval}|{timeout}|{takes}|{st:?}"));
            rep.witness(if want == HealthStatus::Healthy { "slow_check_within_its_timeout_counted" } else { "check_slower_than_its_timeout_failed" }, 1);
            if st != Some(want) && reported.insert(format!("{via_config}/{want:?}")) {
                rep.violations.push(Violation {
                    property: "C18".into(),
                    kind: if want == HealthStatus::Healthy { "check_within_timeout_counted_as_failed".into() } else { "check_beyond_timeout_not_failed".into() },
                    site: "check_timeout".into(),
                    config: format!("check timeouts configured_via={}", if via_config { "HealthCheckConfig::builder + with_config" } else { "wrapper builder setters" }),
                    history: json!({"interval_ms": interval, "timeout_ms": timeout, "every_check_takes_ms": takes}),
                    detail: format!("every check answers Healthy after {takes}ms (interval {interval}ms, timeout {timeout}ms): published status {st:?}, expected {want:?}"),
                    log: vec![],
                });
            }
        }
    }
}

fn hist_configs(tier: Tier) -> Vec<Hist> {
    let mut v = vec![];
    let top = tier.pick(3, 4);
    for ft in 1..=top {
        for st in 1..=top {
            v.push(Hist { ft, st });
        }
    }
    v
}

mod threads;

fn main() {
    trv_core::startup();
    let cli = trv_core::parse_cli();
    if cli.property != "C18" {
        eprintln!("p-healthcheck serves C18");
        std::process::exit(2);
    }
    if let Some(p) = cli.replay.clone() {
        let v = trv_core::load_replay(&p);
        if let Some(ch) = v["history"]["thread_schedule"].as_array() {
            let choices: Vec<usize> = ch.iter().filter_map(|x| x.as_u64().map(|u| u as usize)).collect();
            match threads::replay(v["config"].as_str().unwrap_or(""), &choices, v["kind"].as_str().unwrap_or("")) {
                Some(true) => {
                    println!("VIOLATION property=C18 replay={p}");
                    std::process::exit(1);
                }
                Some(false) => {
                    println!("replay: the recorded violation does not occur on the current tree");
                    std::process::exit(0);
                }
                None => {
                    eprintln!("MACHINERY no thread configuration with that label");
                    std::process::exit(2);
                }
            }
        }
    }
    if let Some(p) = cli.replay {
        let v = trv_core::load_replay(&p);
        if v["config"].as_str().unwrap_or("").starts_with("check timeouts") {
            let mut rep = Report::new("C18", Tier::Quick, "model_checking");
            timeout_grid(&mut rep);
            let kind = v["kind"].as_str().unwrap_or("");
            if rep.violations.iter().any(|x| x.kind == kind) {
                println!("VIOLATION property=C18 replay={p}");
                std::process::exit(1);
            }
            println!("replay: the recorded violation does not occur on the current tree");
            std::process::exit(0);
        }
        if v["config"].as_str().unwrap_or("").starts_with("selection") {
            let mut rep = Report::new("C18", Tier::Quick, "model_checking");
            selection_grid(&mut rep, 3, true);
            selection_grid(&mut rep, 4, false);
            let kind = v["kind"].as_str().unwrap_or("");
            if rep.violations.iter().any(|x| x.kind == kind) {
                println!("VIOLATION property=C18 replay={p}");
                std::process::exit(1);
            }
            println!("replay: the recorded violation does not occur on the current tree");
            std::process::exit(0);
        }
        seq::replay_seq_main("C18", &p, hist_configs(Tier::Thorough));
    }
    let tier = cli.tier;
    let mut rep = Report::new("C18", tier, "model_checking");
    rep.rule = "BFS over per-interval check results {healthy, unhealthy, degraded, unknown, slower than the check timeout} of one resource on the real HealthCheckWrapper (background task under virtual time, one interval per step) for thresholds (failure, success) in {1,2,3}^2 (thorough: {1..4}^2), in lock-step with a reference model; plus the full grid of 3 resources x every status vector in {H,D,U,K}^3 x every vector one check later x 4 selection strategies (thorough: also 4 resources x {H,D,U,K}^4). evaluations = selections made; distinct = distinct (strategy, status vector, getter, first pick)".into();
    rep.assumptions = vec!["checks run in tokio-spawned tasks driven by virtual time; results are sampled half an interval after each check".into()];
    for w in ["status_changed", "check_timed_out", "failure_below_threshold_kept_status", "success_below_threshold_kept_status", "round_robin_over_several", "no_healthy_resource"] {
        rep.require_witness(w);
    }
    let depth = tier.pick(9, 12);
    rep.bounds = json!({"depth": depth, "threshold_pairs": 9, "selection_status_vectors": 64, "strategies": 4});
    let cfgs = hist_configs(tier);
    seq::par_configs(&cfgs, &mut rep, |s, r| {
        seq::explore_seq(s, depth, true, r);
    });
    if tier == Tier::Thorough {
        // cross-check the dedup key: no-dedup enumeration to depth 5 reaches the same keys
        let mut scratch = Report::new("C18", tier, "model_checking");
        let mut mism = 0;
        for s in cfgs.iter().step_by(4) {
            let a = seq::explore_seq(s, 5, false, &mut scratch);
            let b = seq::explore_seq(s, 5, true, &mut scratch);
            if a.keys != b.keys {
                mism += 1;
                rep.machinery.push(format!("{}: dedup and no-dedup key sets differ", s.label()));
            }
        }
        rep.extra.insert("abstraction_validation".into(), json!({"depth": 5, "mismatches": mism}));
    }
    timeout_grid(&mut rep);
    // thread level: concurrent round-robin selections (engine B)
    threads::run(tier, &mut rep);
    rep.assumptions.push("thread level (engine B): scheduling points are the atomic steps of the selector's round-robin cursor (repo feature verif-hooks); sequentially consistent memory; all resources published healthy, the checker task stopped".into());
    rep.require_witness("slow_check_within_its_timeout_counted");
    rep.require_witness("check_slower_than_its_timeout_failed");
    // quick: 3 resources, every status vector and every vector one check later (64 x 64);
    // thorough: additionally 4 resources (256 vectors)
    selection_grid(&mut rep, 3, true);
    if tier == Tier::Thorough {
        selection_grid(&mut rep, 4, false);
    }
    rep.require_witness("round_robin_after_the_eligible_set_changed");
    trv_core::finish(rep);
}
