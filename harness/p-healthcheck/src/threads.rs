//! C18, thread level (engine B): selections (`get_healthy`) through one wrapper run on OS
//! threads; scheduling points are the atomic steps of the round-robin cursor (repo feature
//! verif-hooks). "Round-robin selection visits all eligible resources evenly": whatever the
//! interleaving, the resources handed out must be those of *some* order of the same
//! selections made one at a time (brute-force linearizability against the real wrapper) -
//! two concurrent callers must not both read the cursor before either advances it.

use std::future::Future;
use std::sync::Arc;
use std::task::{Context, Poll};
use std::time::Duration;
use tower_resilience_healthcheck::{HealthCheckWrapper, HealthStatus, SelectionStrategy};
use trv_core::evidence::{Report, Tier};
use trv_core::ilv::{self, LinCheck, OpFn, Spec};

pub struct Shared {
    /// one selection on the shared wrapper (whose checker type cannot be named), polled with a
    /// no-op waker: nothing in it waits (read lock, no writer). Resource index, -1 for none,
    /// -2 if it had to wait.
    pick: Box<dyn Fn() -> i64 + Send + Sync>,
    resources: usize,
}

#[derive(Clone)]
pub struct TCfg {
    pub resources: usize,
    /// selections per thread
    pub programs: Vec<usize>,
}

fn build(resources: usize) -> Shared {
    let rt = tokio::runtime::Builder::new_current_thread().enable_time().start_paused(true).build().unwrap();
    rt.block_on(async {
        let mut b = HealthCheckWrapper::builder();
        for i in 0..resources {
            b = b.with_context(format!("r{i}"), format!("r{i}"));
        }
        let wrapper = b
            .with_checker(|_r: &String| async { HealthStatus::Healthy })
            .with_interval(Duration::from_millis(100))
            .with_initial_delay(Duration::ZERO)
            .with_timeout(Duration::from_millis(10))
            .with_failure_threshold(1)
            .with_success_threshold(1)
            .with_selection_strategy(SelectionStrategy::RoundRobin)
            .build();
        wrapper.start().await;
        tokio::time::sleep(Duration::from_millis(50)).await;
        let st = wrapper.get_all_statuses().await;
        assert!(st.iter().all(|(_, s)| *s == HealthStatus::Healthy), "setup: not all resources healthy: {st:?}");
        wrapper.stop().await;
        Shared {
            pick: Box::new(move || {
                let waker = ilv::noop_waker();
                let mut cx = Context::from_waker(&waker);
                let mut fut = std::pin::pin!(wrapper.get_healthy());
                match fut.as_mut().poll(&mut cx) {
                    Poll::Ready(Some(r)) => r[1..].parse::<i64>().unwrap(),
                    Poll::Ready(None) => -1,
                    Poll::Pending => -2,
                }
            }),
            resources,
        }
    })
}

impl TCfg {
    pub fn label(&self) -> String {
        format!("healthcheck threads strategy=round_robin resources={} all healthy selections_per_thread={:?}", self.resources, self.programs)
    }
    fn spec(&self) -> Spec<Shared, i64> {
        let n = self.resources;
        let op: OpFn<Shared, i64> = Arc::new(|s: &Shared| (s.pick)());
        Spec {
            name: self.label(),
            make: Arc::new(move || build(n)),
            threads: self.programs.iter().map(|k| (0..*k).map(|_| ("get_healthy".to_string(), op.clone())).collect()).collect(),
            install_hook: Arc::new(|| tower_resilience_core::verif::set_yield_hook(Some(Box::new(|op| ilv::yield_point(op))))),
            uninstall_hook: Arc::new(|| tower_resilience_core::verif::set_yield_hook(None)),
            step_check: Arc::new(|_s: &Shared| None),
            spurious: false,
        }
    }
}

pub fn configs(tier: Tier) -> Vec<TCfg> {
    let mut v = vec![];
    for resources in [2usize, 3] {
        v.push(TCfg { resources, programs: vec![1, 1] });
        v.push(TCfg { resources, programs: vec![2, 1] });
        if tier == Tier::Thorough {
            v.push(TCfg { resources, programs: vec![1, 1, 1] });
            v.push(TCfg { resources, programs: vec![2, 2] });
            v.push(TCfg { resources, programs: vec![3, 2] });
        }
    }
    v
}

fn observe(_s: &Shared) -> String {
    String::new()
}

/// evenness, stated directly: over the whole run no resource is handed out more than
/// ceil(selections / resources) times; and nothing in a selection ever has to wait
fn extra(x: &ilv::Execution<i64>, s: &Shared) -> Vec<(String, String)> {
    let mut out = vec![];
    let all: Vec<i64> = x.returns.iter().flatten().cloned().collect();
    if all.iter().any(|r| *r < 0) {
        out.push(("selection_failed".to_string(), format!("a selection returned nothing or had to wait: {:?}", x.returns)));
    }
    let n = s.resources;
    let cap = all.len().div_ceil(n);
    for r in 0..n as i64 {
        let c = all.iter().filter(|v| **v == r).count();
        if c > cap {
            out.push(("round_robin_uneven".to_string(), format!("resource r{r} was handed out {c} times in {} selections over {n} healthy resources: {:?}", all.len(), x.returns)));
            break;
        }
    }
    out
}

fn lin<'a>(cfg: &TCfg, spec: &'a Spec<Shared, i64>, tier: Tier) -> LinCheck<'a, Shared, i64> {
    LinCheck {
        property: "C18",
        site: "RoundRobin_threads",
        label: cfg.label(),
        spec,
        bounds: tier.pick(vec![Some(0), Some(1), Some(2)], vec![Some(0), Some(1), Some(2), None]),
        max_schedules: tier.pick(100_000, 1_000_000),
        observe: &observe,
        extra: &extra,
        linearizable: true,
    }
}

pub fn run(tier: Tier, rep: &mut Report) {
    for cfg in configs(tier) {
        let spec = cfg.spec();
        let c = lin(&cfg, &spec, tier);
        ilv::set_deadline(Some(std::time::Instant::now() + std::time::Duration::from_secs(tier.pick(20, 90))));
        ilv::check_linearizable(&c, rep);
    }
    ilv::set_deadline(None);
}

pub fn replay(label: &str, choices: &[usize], kind: &str) -> Option<bool> {
    let mut all = configs(Tier::Quick);
    all.extend(configs(Tier::Thorough));
    for cfg in all {
        if cfg.label() == label {
            let spec = cfg.spec();
            let c = lin(&cfg, &spec, Tier::Thorough);
            return Some(ilv::replay_schedule(&c, choices, kind));
        }
    }
    None
}
