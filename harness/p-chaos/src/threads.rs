//! C19, thread level (engine B): requests through clones of one seeded chaos service run on
//! OS threads; scheduling points are the acquisitions of the layer's RNG mutex (repo feature
//! verif-hooks). "A deterministic function of the seed and the order of requests": whatever
//! the interleaving, the decisions the requests receive must be those of *some* order of the
//! same requests served one at a time (brute-force linearizability against the real layer).

use std::sync::Arc;
use std::task::{Context, Poll};
use std::time::Duration;
use tower::{Layer, Service};
use tower_resilience_chaos::ChaosLayer;
use trv_core::evidence::{Report, Tier};
use trv_core::ilv::{self, LinCheck, OpFn, Spec};
use trv_core::inner::{InnerErr, Req, Resp};

#[derive(Clone)]
struct ReadyInner;

impl Service<Req> for ReadyInner {
    type Response = Resp;
    type Error = InnerErr;
    type Future = std::future::Ready<Result<Resp, InnerErr>>;
    fn poll_ready(&mut self, _cx: &mut Context<'_>) -> Poll<Result<(), InnerErr>> {
        Poll::Ready(Ok(()))
    }
    fn call(&mut self, req: Req) -> Self::Future {
        std::future::ready(Ok(Resp { serial: 1, req: req.id, key: req.key }))
    }
}

type Svc = Box<dyn CloneSvc>;

/// type-erased, cloneable chaos service (its error-function type is unnameable)
pub trait CloneSvc: Send + Sync {
    fn clone_box(&self) -> Svc;
    /// serve one request to the end under a paused clock; (error injected, injected latency ms)
    fn serve(&mut self) -> (bool, u64);
}

impl<S> CloneSvc for S
where
    S: Service<Req, Response = Resp, Error = InnerErr> + Clone + Send + Sync + 'static,
    S::Future: Send,
{
    fn clone_box(&self) -> Svc {
        Box::new(self.clone())
    }
    fn serve(&mut self) -> (bool, u64) {
        let rt = tokio::runtime::Builder::new_current_thread().enable_time().start_paused(true).build().unwrap();
        rt.block_on(async {
            let t0 = tokio::time::Instant::now();
            let _ = futures::future::poll_fn(|cx| self.poll_ready(cx)).await;
            let r = self.call(Req::new(1, 0)).await;
            (r.is_err(), t0.elapsed().as_millis() as u64)
        })
    }
}

pub struct Shared {
    svc: Svc,
}

#[derive(Clone)]
pub struct TCfg {
    pub seed: u64,
    /// requests per thread
    pub programs: Vec<usize>,
}

impl TCfg {
    pub fn label(&self) -> String {
        format!("chaos threads seed={} error_rate=0.5 latency_rate=0.5 latency=[5,20]ms requests_per_thread={:?}", self.seed, self.programs)
    }
    fn spec(&self) -> Spec<Shared, i64> {
        let seed = self.seed;
        let op: OpFn<Shared, i64> = Arc::new(|s: &Shared| {
            let mut c = s.svc.clone_box();
            let (err, lat) = c.serve();
            (err as i64) * 1_000_000 + lat as i64
        });
        Spec {
            name: self.label(),
            make: Arc::new(move || {
                fn inject(_r: &Req) -> InnerErr {
                    InnerErr { id: 4242, kind: 7 }
                }
                let f: fn(&Req) -> InnerErr = inject;
                let layer = ChaosLayer::builder().name("c19t").error_rate(0.5).error_fn(f).latency_rate(0.5).min_latency(Duration::from_millis(5)).max_latency(Duration::from_millis(20)).seed(seed).build();
                Shared { svc: Box::new(layer.layer(ReadyInner)) }
            }),
            threads: self.programs.iter().map(|n| (0..*n).map(|_| ("request".to_string(), op.clone())).collect()).collect(),
            install_hook: Arc::new(|| tower_resilience_core::verif::set_yield_hook(Some(Box::new(|op| ilv::yield_point(op))))),
            uninstall_hook: Arc::new(|| tower_resilience_core::verif::set_yield_hook(None)),
            step_check: Arc::new(|_s: &Shared| None),
            spurious: false,
        }
    }
}

pub fn configs(tier: Tier) -> Vec<TCfg> {
    let mut v = vec![];
    for seed in tier.pick(vec![0u64, 1, 2, 3], (0u64..12).collect()) {
        v.push(TCfg { seed, programs: vec![1, 1] });
        v.push(TCfg { seed, programs: vec![2, 1] });
        if tier == Tier::Thorough {
            v.push(TCfg { seed, programs: vec![1, 1, 1] });
            v.push(TCfg { seed, programs: vec![2, 2] });
        }
    }
    v
}

fn observe(_s: &Shared) -> String {
    String::new()
}

fn extra(_x: &ilv::Execution<i64>, _s: &Shared) -> Vec<(String, String)> {
    vec![]
}

fn lin<'a>(cfg: &TCfg, spec: &'a Spec<Shared, i64>, tier: Tier) -> LinCheck<'a, Shared, i64> {
    LinCheck {
        property: "C19",
        site: "Chaos_threads",
        label: cfg.label(),
        spec,
        bounds: tier.pick(vec![Some(0), Some(1), Some(2)], vec![Some(0), Some(1), Some(2), None]),
        max_schedules: tier.pick(100_000, 1_000_000),
        observe: &observe,
        extra: &extra,
        linearizable: true,
    }
}

pub fn run(tier: Tier, rep: &mut Report) {
    for cfg in configs(tier) {
        let spec = cfg.spec();
        let c = lin(&cfg, &spec, tier);
        ilv::set_deadline(Some(std::time::Instant::now() + std::time::Duration::from_secs(tier.pick(20, 90))));
        ilv::check_linearizable(&c, rep);
    }
    ilv::set_deadline(None);
}

pub fn replay(label: &str, choices: &[usize], kind: &str) -> Option<bool> {
    let mut all = configs(Tier::Quick);
    all.extend(configs(Tier::Thorough));
    for cfg in all {
        if cfg.label() == label {
            let spec = cfg.spec();
            let c = lin(&cfg, &spec, Tier::Thorough);
            return Some(ilv::replay_schedule(&c, choices, kind));
        }
    }
    None
}
