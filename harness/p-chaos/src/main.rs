//! C19 — chaos injection is reproducible and bounded; injected errors skip the inner call
//! (engine C: full finite grid, six equally seeded instances (built with the builder calls in five different orders; one of them serving every request through a fresh clone) run side by side).

use serde_json::json;
use std::time::Duration;
use tower::{Layer, Service};
use tower_resilience_chaos::ChaosLayer;
use trv_core::evidence::{Report, Violation};
use trv_core::inner::{CallStatus, GatedInner, InnerErr, Mode, Req};
use trv_core::world::World;

mod threads;

trv_core::install_clock_seam!();

#[derive(Debug, Clone, PartialEq)]
struct Obs {
    /// "ok" / "injected_error" / "inner_error"
    result: &'static str,
    reached_inner: bool,
    /// delay between the call and the inner call (ms), if it reached the inner service
    latency: Option<u64>,
}

const N_REQ: usize = 24;

/// `order`: where the latency settings and the seed are given relative to the two
/// type-changing builder calls error_rate(..) -> error_fn(..): 0 = after both, 1 = before
/// both, 2 = between them (each builder type re-implements every setter by hand). The equally
/// seeded instances of every grid point are built in all three orders.
fn run_instance(seed: Option<u64>, err_rate: f64, lat_rate: f64, min: u64, max: u64, order: u8) -> Result<Vec<Obs>, String> {
    run_instance_via(seed, err_rate, lat_rate, min, max, order, false)
}

/// `via_clones`: every request goes through a fresh clone of the service (the usual
/// `svc.clone().oneshot(req)` pattern) instead of through the one handle.
fn run_instance_via(seed: Option<u64>, err_rate: f64, lat_rate: f64, min: u64, max: u64, order: u8, via_clones: bool) -> Result<Vec<Obs>, String> {
    let w = World::new(0, 10, Mode::Script, 1);
    fn inject(_r: &Req) -> InnerErr {
        InnerErr { id: 4242, kind: 7 }
    }
    let inject: fn(&Req) -> InnerErr = inject;
    let layer = match order {
        1 => {
            let mut b = ChaosLayer::builder().name("c19").latency_rate(lat_rate).min_latency(Duration::from_millis(min)).max_latency(Duration::from_millis(max));
            if let Some(s) = seed {
                b = b.seed(s);
            }
            b.error_rate(err_rate).error_fn(inject).build()
        }
        2 => {
            let mut b = ChaosLayer::builder().name("c19").error_rate(err_rate).latency_rate(lat_rate).min_latency(Duration::from_millis(min)).max_latency(Duration::from_millis(max));
            if let Some(s) = seed {
                b = b.seed(s);
            }
            b.error_fn(inject).build()
        }
        5 => {
            let mut b = ChaosLayer::builder().name("c19").error_rate(err_rate).error_fn(inject).latency_rate(lat_rate).min_latency(Duration::from_millis(min)).max_latency(Duration::from_millis(max));
            if let Some(s) = seed {
                b = b.seed(s);
            }
            b.on_passed_through(|| {}).on_error_injected(|| {}).on_latency_injected(|_| {}).build()
        }
        3 => {
            // the error function first, its rate afterwards (error_fn is also available on the
            // initial builder; the builder it returns has an error_rate setter of its own)
            let mut b = ChaosLayer::builder().name("c19").error_fn(inject).error_rate(err_rate).latency_rate(lat_rate).min_latency(Duration::from_millis(min)).max_latency(Duration::from_millis(max));
            if let Some(s) = seed {
                b = b.seed(s);
            }
            b.build()
        }
        4 => {
            let mut b = ChaosLayer::builder().name("c19").latency_rate(lat_rate).min_latency(Duration::from_millis(min)).max_latency(Duration::from_millis(max));
            if let Some(s) = seed {
                b = b.seed(s);
            }
            b.error_fn(inject).error_rate(err_rate).build()
        }
        _ => {
            let mut b = ChaosLayer::builder().name("c19").error_rate(err_rate).error_fn(inject).latency_rate(lat_rate).min_latency(Duration::from_millis(min)).max_latency(Duration::from_millis(max));
            if let Some(s) = seed {
                b = b.seed(s);
            }
            b.build()
        }
    };
    let mut svc = if order % 2 == 0 { layer.clone().layer(GatedInner::new(w.inner.clone())) } else { layer.layer(GatedInner::new(w.inner.clone())) };
    let mut out = vec![];
    for i in 0..N_REQ {
        let req = Req::new(i as u32, (i % 3) as u8);
        let t0 = w.now_ms();
        let before = w.inner.lock().unwrap().calls.len();
        let r = std::panic::catch_unwind(std::panic::AssertUnwindSafe(|| {
            w.block_on(async {
                if via_clones {
                    let mut c = svc.clone();
                    let _ = futures::future::poll_fn(|cx| Service::<Req>::poll_ready(&mut c, cx)).await;
                    // (... and the response future is first polled 3 ms after call() returned it:
                    // the injected latency counts from that first poll)
                    let fut = c.call(req.clone());
                    tokio::time::sleep(Duration::from_millis(3)).await;
                    fut.await
                } else {
                    let _ = futures::future::poll_fn(|cx| Service::<Req>::poll_ready(&mut svc, cx)).await;
                    svc.call(req.clone()).await
                }
            })
        }))
        .map_err(|_| format!("request {i} panicked"))?;
        let g = w.inner.lock().unwrap();
        let n = g.calls.len() - before;
        if n > 1 {
            return Err(format!("request {i} reached the inner service {n} times"));
        }
        let reached = n == 1;
        let mut latency = None;
        if reached {
            let c = &g.calls[before];
            latency = Some(c.start_ms - t0 - if via_clones { 3 } else { 0 });
            if c.req != req {
                return Err(format!("request {i} changed on the way: inner saw {:?}", c.req));
            }
            match (&c.status, &r) {
                (CallStatus::Ok(a), Ok(b)) if a == b => {}
                (s, r) => return Err(format!("request {i}: inner ended {s:?} but the call returned {r:?}")),
            }
        }
        let result = match &r {
            Ok(_) => "ok",
            Err(e) if e.id == 4242 && e.kind == 7 => "injected_error",
            Err(_) => "inner_error",
        };
        out.push(Obs { result, reached_inner: reached, latency });
        // transparent also means: the instance that is called is the one that said Ready
        if let Some(v) = g.contract_violations.first() {
            return Err(format!("request {i}: {v}"));
        }
    }
    Ok(out)
}

fn main() {
    trv_core::startup();
    let cli = trv_core::parse_cli();
    if cli.property != "C19" {
        eprintln!("p-chaos serves C19");
        std::process::exit(2);
    }
    let tier = cli.tier;
    let mut rep = Report::new("C19", tier, "exploration");
    rep.rule = "full grid: seeds {0..63 (quick) / 0..255 (thorough), 2^32-1, 2^64-1} x error rate {0, 0.3, 1} x latency rate {0, 0.5, 1} x latency range ms {(0,0),(5,5),(5,20),(20,5),(1200,1800),(2000,2000),(500,2500),(61000,62000),(3600000,1)} x 24 sequential requests; six equally seeded instances (built with the builder calls in five different orders; one of them serving every request through a fresh clone) run side by side under virtual time and must make identical decisions and inject identical latencies. distinct = distinct (configuration, decision vector) pairs".into();
    let mut seeds: Vec<u64> = (0..tier.pick(64u64, 256)).collect();
    seeds.push(u32::MAX as u64);
    seeds.push(u64::MAX);
    let ranges = [(0u64, 0u64), (5, 5), (5, 20), (20, 5), (1200, 1800), (2000, 2000), (500, 2500), (61_000, 62_000), (3_600_000, 1)];
    let mut reported = std::collections::BTreeSet::new();
    let mut viol = |rep: &mut Report, kind: &str, cfg: String, detail: String| {
        if reported.insert(kind.to_string()) {
            rep.violations.push(Violation { property: "C19".into(), kind: kind.into(), site: "Chaos::call".into(), config: cfg, history: json!({}), detail, log: vec![] });
        }
    };
    for &seed in &seeds {
        for er in [0.0, 0.3, 1.0] {
            for lr in [0.0, 0.5, 1.0] {
                for (min, max) in ranges {
                    let cfg = format!("seed={seed} error_rate={er} latency_rate={lr} latency=[{min},{max}]ms");
                    let a = run_instance(Some(seed), er, lr, min, max, 0);
                    let b = run_instance(Some(seed), er, lr, min, max, 1);
                    let c = run_instance(Some(seed), er, lr, min, max, 2);
                    let d = run_instance_via(Some(seed), er, lr, min, max, 0, true);
                    let e3 = run_instance(Some(seed), er, lr, min, max, 3);
                    let e4 = run_instance(Some(seed), er, lr, min, max, 4);
                    // (one more instance, with a listener for every event type)
                    match run_instance(Some(seed), er, lr, min, max, 5) {
                        Ok(l) => {
                            if let Ok(a0) = &a {
                                if &l != a0 {
                                    let i = a0.iter().zip(l.iter()).position(|(x, y)| x != y).unwrap_or(0);
                                    viol(&mut rep, "not_reproducible", cfg.clone(), format!("two instances with seed {seed}, one of them with event listeners, differ at request {i}: {:?} vs {:?}", a0.get(i), l.get(i)));
                                }
                            }
                        }
                        Err(e) => viol(&mut rep, "not_transparent", cfg.clone(), e),
                    }
                    rep.evaluations += 7 * N_REQ as u64;
                    let (a, b, c, d, e3, e4) = match (a, b, c, d, e3, e4) {
                        (Ok(a), Ok(b), Ok(c), Ok(d), Ok(e3), Ok(e4)) => (a, b, c, d, e3, e4),
                        (Err(e), _, _, _, _, _) | (_, Err(e), _, _, _, _) | (_, _, Err(e), _, _, _) | (_, _, _, Err(e), _, _) | (_, _, _, _, Err(e), _) | (_, _, _, _, _, Err(e)) => {
                            viol(&mut rep, "not_transparent", cfg.clone(), e);
                            continue;
                        }
                    };
                    for (name, other) in [("settings before error_rate", &b), ("settings between error_rate and error_fn", &c), ("same order, every request through a fresh clone of the service", &d), ("error_fn before error_rate, settings last", &e3), ("settings first, then error_fn before error_rate", &e4)] {
                        if &a != other {
                            let i = a.iter().zip(other.iter()).position(|(x, y)| x != y).unwrap();
                            viol(&mut rep, "not_reproducible", cfg.clone(), format!("two instances with seed {seed} (builder order: settings last / {name}) differ at request {i}: {:?} vs {:?}", a[i], other[i]));
                        }
                    }
                    let (lo, hi) = (min.min(max), min.max(max));
                    for (i, o) in a.iter().enumerate().chain(b.iter().enumerate()).chain(c.iter().enumerate()).chain(e3.iter().enumerate()).chain(e4.iter().enumerate()) {
                        if o.result == "injected_error" && o.reached_inner {
                            viol(&mut rep, "injected_error_reached_inner", cfg.clone(), format!("request {i} got the injected error but the inner service was called"));
                        }
                        if o.result == "ok" && !o.reached_inner {
                            viol(&mut rep, "ok_without_inner_call", cfg.clone(), format!("request {i} succeeded without reaching the inner service"));
                        }
                        if er == 1.0 && o.result != "injected_error" {
                            viol(&mut rep, "error_rate_one_passed", cfg.clone(), format!("request {i} was not failed although the error rate is 1: {:?}", o));
                        }
                        if er == 0.0 && o.result != "ok" {
                            viol(&mut rep, "error_rate_zero_failed", cfg.clone(), format!("request {i} failed although the error rate is 0: {:?}", o));
                        }
                        if let Some(l) = o.latency {
                            if lr == 0.0 && l != 0 {
                                viol(&mut rep, "latency_rate_zero_delayed", cfg.clone(), format!("request {i} was delayed {l}ms although the latency rate is 0"));
                            }
                            if l != 0 && (l < lo || l > hi) {
                                viol(&mut rep, "latency_out_of_range", cfg.clone(), format!("request {i} was delayed {l}ms, configured range [{min},{max}]ms"));
                            }
                            if lr == 1.0 && lo > 0 && l == 0 {
                                viol(&mut rep, "latency_out_of_range", cfg.clone(), format!("request {i} was not delayed although the latency rate is 1 and the minimum is {lo}ms"));
                            }
                            if l > 0 {
                                rep.witness("latency_injected", 1);
                            }
                        }
                        match o.result {
                            "injected_error" => rep.witness("error_injected", 1),
                            _ => rep.witness("passed", 1),
                        }
                    }
                    rep.distinct.insert(format!("{cfg}|{:?}", a.iter().map(|o| (o.result.len(), o.latency)).collect::<Vec<_>>()));
                    if seed == 7 && er == 0.3 && lr == 0.5 && min == 5 && max == 20 {
                        rep.sample(json!({"config": cfg, "decisions": a.iter().map(|o| format!("{}:{:?}", o.result, o.latency)).collect::<Vec<_>>()}));
                    }
                }
            }
        }
    }
    // different seeds should not all coincide (vacuity guard for the seed plumbing)
    let x = run_instance(Some(1), 0.3, 0.5, 5, 20, 0);
    let y = run_instance(Some(2), 0.3, 0.5, 5, 20, 0);
    if let (Ok(x), Ok(y)) = (&x, &y) {
        if x != y {
            rep.witness("different_seeds_differ", 1);
        }
    }
    for w in ["latency_injected", "error_injected", "passed", "different_seeds_differ"] {
        rep.require_witness(w);
    }
    rep.bounds = json!({"seeds": seeds.len(), "requests_per_run": N_REQ});
    if let Some(p) = cli.replay.clone() {
        let v = trv_core::load_replay(&p);
        if let Some(ch) = v["history"]["thread_schedule"].as_array() {
            let choices: Vec<usize> = ch.iter().filter_map(|x| x.as_u64().map(|u| u as usize)).collect();
            match threads::replay(v["config"].as_str().unwrap_or(""), &choices, v["kind"].as_str().unwrap_or("")) {
                Some(true) => {
                    println!("VIOLATION property=C19 replay={p}");
                    std::process::exit(1);
                }
                Some(false) => {
                    println!("replay: the recorded violation does not occur on the current tree");
                    std::process::exit(0);
                }
                None => {
                    eprintln!("MACHINERY no thread configuration with that label");
                    std::process::exit(2);
                }
            }
        }
    }
    if let Some(p) = cli.replay {
        let v = trv_core::load_replay(&p);
        let kind = v["kind"].as_str().unwrap_or("");
        if rep.violations.iter().any(|x| x.kind == kind) {
            println!("VIOLATION property=C19 replay={p}");
            std::process::exit(1);
        }
        println!("replay: the recorded violation does not occur on the current tree");
        std::process::exit(0);
    }
    // thread level: requests on OS threads, interleaved at the RNG mutex
    threads::run(tier, &mut rep);
    rep.require_witness("thread_schedules_with_preemption");
    rep.require_witness("thread_config_with_several_outcomes");
    trv_core::finish(rep);
}
