//! C17, thread level (engine B): two whole requests through clones of one Fallback service
//! run on OS threads. The layer itself has no shared mutable state on the pinned tree, so the
//! scheduling points are the harness's own: the handle predicate and the strategy function
//! yield to the explorer when they are entered, which places the other request's predicate
//! call *inside* this one's on some schedule. Whatever the interleaving, each request gets
//! what the strategy specifies for it: the refused error comes back unchanged, the accepted
//! one is answered by the strategy with that request's own payload.

use std::sync::{Arc, Mutex};
use std::task::{Context, Poll};
use tower::{Layer, Service};
use tower_resilience_fallback::{FallbackError, FallbackLayer};
use trv_core::evidence::{Report, Tier};
use trv_core::ilv::{self, LinCheck, OpFn, Spec};
use trv_core::inner::{InnerErr, Req, Resp};

/// fails every call; the error kind is the request's key
#[derive(Clone)]
struct Failing;

impl Service<Req> for Failing {
    type Response = Resp;
    type Error = InnerErr;
    type Future = std::future::Ready<Result<Resp, InnerErr>>;
    fn poll_ready(&mut self, _cx: &mut Context<'_>) -> Poll<Result<(), InnerErr>> {
        Poll::Ready(Ok(()))
    }
    fn call(&mut self, req: Req) -> Self::Future {
        std::future::ready(Err(InnerErr { id: 40 + req.id, kind: req.key }))
    }
}

type Svc = tower_resilience_fallback::Fallback<Failing, Req, Resp, InnerErr>;

pub struct Shared {
    svc: Mutex<Svc>,
}

fn spec(exception: bool, keys: Vec<u8>) -> Spec<Shared, i64> {
    // one request to its end: 0 = the inner error came back unchanged, 1 = the strategy's
    // answer for this very request, 2 = anything else
    let threads = keys
        .iter()
        .enumerate()
        .map(|(t, key)| {
            let (id, key) = (t as u32 + 1, *key);
            let op: OpFn<Shared, i64> = Arc::new(move |s: &Shared| {
                let mut svc = s.svc.lock().unwrap().clone();
                let rt = tokio::runtime::Builder::new_current_thread().build().unwrap();
                let r = rt.block_on(async {
                    let _ = futures::future::poll_fn(|cx| svc.poll_ready(cx)).await;
                    svc.call(Req::new(id, key)).await
                });
                match r {
                    Err(FallbackError::Inner(e)) if e == (InnerErr { id: 40 + id, kind: key }) => 0,
                    Ok(r) if !exception && r == (Resp { serial: 780_000 + 40 + id, req: id, key }) => 1,
                    Err(FallbackError::Inner(e)) if exception && e == (InnerErr { id: 5_040 + id, kind: key }) => 1,
                    _ => 2,
                }
            });
            vec![(format!("request(key {key})"), op)]
        })
        .collect();
    Spec {
        name: label(exception, &keys),
        make: Arc::new(move || {
            let b = FallbackLayer::<Req, Resp, InnerErr>::builder().handle(|e: &InnerErr| {
                ilv::yield_point("predicate");
                e.kind == 0
            });
            let layer = if exception {
                b.exception(|e: InnerErr| {
                    ilv::yield_point("strategy");
                    InnerErr { id: e.id + 5_000, kind: e.kind }
                })
                .build()
            } else {
                b.from_request_error(|r: &Req, e: &InnerErr| {
                    ilv::yield_point("strategy");
                    Resp { serial: 780_000 + e.id, req: r.id, key: r.key }
                })
                .build()
            };
            Shared { svc: Mutex::new(layer.layer(Failing)) }
        }),
        threads,
        install_hook: Arc::new(|| {}),
        uninstall_hook: Arc::new(|| {}),
        step_check: Arc::new(|_s: &Shared| None),
        spurious: false,
    }
}

fn label(exception: bool, keys: &[u8]) -> String {
    format!("fallback threads strategy={} predicate=by_kind(yields) error kinds per thread {:?}", if exception { "exception" } else { "from_request_error" }, keys)
}

fn configs(tier: Tier) -> Vec<(bool, Vec<u8>)> {
    let mut v = vec![];
    for exception in [false, true] {
        v.push((exception, vec![0, 1]));
        v.push((exception, vec![1, 1]));
        if tier == Tier::Thorough {
            v.push((exception, vec![0, 1, 1]));
            v.push((exception, vec![0, 0]));
        }
    }
    v
}

fn extra_of(keys: Vec<u8>) -> impl Fn(&ilv::Execution<i64>, &Shared) -> Vec<(String, String)> + Sync {
    move |x, _s| {
        let mut out = vec![];
        for (t, r) in x.returns.iter().enumerate() {
            let want = if keys[t] == 0 { 1 } else { 0 };
            match r.first() {
                Some(got) if *got == want => {}
                got => out.push((
                    if keys[t] == 0 { "error_not_handled" } else { "refused_error_handled" }.to_string(),
                    format!("thread {t} (error kind {}): expected {} but got code {got:?} (0 = inner error unchanged, 1 = the strategy's answer for this request, 2 = something else)", keys[t], want),
                )),
            }
        }
        out.push(("witness:requests_on_threads".to_string(), String::new()));
        out
    }
}

fn observe(_s: &Shared) -> String {
    String::new()
}

pub fn run(tier: Tier, rep: &mut Report) {
    // a layer that makes one request wait for another inside the predicate would block the
    // explorer's baton-passing threads for good: give up loudly instead of hanging
    let done = Arc::new(std::sync::atomic::AtomicBool::new(false));
    let d2 = done.clone();
    std::thread::spawn(move || {
        for _ in 0..tier_secs(tier) * 10 {
            std::thread::sleep(std::time::Duration::from_millis(100));
            if d2.load(std::sync::atomic::Ordering::SeqCst) {
                return;
            }
        }
        eprintln!("MACHINERY C17 thread-level run did not finish: a request blocks while another one is inside the handle predicate");
        std::process::exit(2);
    });
    for (exception, keys) in configs(tier) {
        let sp = spec(exception, keys.clone());
        let extra = extra_of(keys.clone());
        let c = LinCheck {
            property: "C17",
            site: "Fallback_threads",
            label: label(exception, &keys),
            spec: &sp,
            bounds: tier.pick(vec![Some(0), Some(1), Some(2)], vec![Some(0), Some(1), Some(2), None]),
            max_schedules: 200_000,
            observe: &observe,
            extra: &extra,
            linearizable: true,
        };
        ilv::check_linearizable(&c, rep);
    }
    done.store(true, std::sync::atomic::Ordering::SeqCst);
}

fn tier_secs(tier: Tier) -> u64 {
    tier.pick(60, 300)
}

pub fn replay(label_: &str, choices: &[usize], kind: &str) -> Option<bool> {
    for tier in [Tier::Quick, Tier::Thorough] {
        for (exception, keys) in configs(tier) {
            if label(exception, &keys) == label_ {
                let sp = spec(exception, keys.clone());
                let extra = extra_of(keys.clone());
                let c = LinCheck { property: "C17", site: "Fallback_threads", label: label(exception, &keys), spec: &sp, bounds: vec![None], max_schedules: 200_000, observe: &observe, extra: &extra, linearizable: true };
                return Some(ilv::replay_schedule(&c, choices, kind));
            }
        }
    }
    None
}
