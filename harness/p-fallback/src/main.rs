//! C17 — fallback never replaces a success and handles exactly the errors it should
//! (engine C: full finite grid against a pure reference function).

use serde_json::json;
use std::sync::atomic::{AtomicU32, Ordering};
use std::sync::{Arc, Mutex};
use tower::{Layer, Service};
use tower_resilience_fallback::{FallbackError, FallbackLayer};
use trv_core::evidence::{Report, Violation};
use trv_core::inner::{GatedInner, InnerErr, Mode, Out, Plan, Req, Resp};
use trv_core::world::World;

trv_core::install_clock_seam!();

mod threads;

#[derive(Clone, Copy, Debug, PartialEq)]
enum Strat {
    Value,
    ValueFn,
    FromError,
    FromRequestError,
    ServiceOk,
    ServiceFailing,
    Exception,
}

#[derive(Clone, Copy, Debug, PartialEq)]
enum Pred {
    None,
    Accept,
    Reject,
    ByKind,
    /// stateful: accepts its 1st, 3rd, 5th ... evaluation and refuses the others (a fallback
    /// budget, a sampler): the layer must ask exactly once per inner error
    Alternating,
}

const STRATS: [Strat; 7] = [Strat::Value, Strat::ValueFn, Strat::FromError, Strat::FromRequestError, Strat::ServiceOk, Strat::ServiceFailing, Strat::Exception];
const PREDS: [Pred; 5] = [Pred::None, Pred::Accept, Pred::Reject, Pred::ByKind, Pred::Alternating];

#[derive(Debug, Clone, PartialEq)]
enum Res {
    Ok(Resp),
    Inner(InnerErr),
    FallbackFailed(InnerErr),
}

fn handled(p: Pred, e: &InnerErr, errs_before: u32) -> bool {
    match p {
        Pred::None | Pred::Accept => true,
        Pred::Reject => false,
        Pred::ByKind => e.kind == 0,
        Pred::Alternating => errs_before % 2 == 0,
    }
}

/// pure reference: what the layer must return for (strategy, predicate, request, inner outcome)
fn reference(s: Strat, p: Pred, req: &Req, inner: &Result<Resp, InnerErr>, value_fn_calls_before: u32, errs_before: u32) -> (Res, u32 /*value_fn calls*/, u32 /*backup calls*/) {
    match inner {
        Ok(r) => (Res::Ok(r.clone()), 0, 0),
        Err(e) => {
            if !handled(p, e, errs_before) {
                return (Res::Inner(e.clone()), 0, 0);
            }
            match s {
                Strat::Value => (Res::Ok(Resp { serial: 777_000, req: 0, key: 0 }), 0, 0),
                Strat::ValueFn => (Res::Ok(Resp { serial: 778_000 + value_fn_calls_before, req: 0, key: 0 }), 1, 0),
                Strat::FromError => (Res::Ok(Resp { serial: 779_000 + e.id, req: 0, key: e.kind }), 0, 0),
                Strat::FromRequestError => (Res::Ok(Resp { serial: 780_000 + e.id, req: req.id, key: req.key }), 0, 0),
                Strat::ServiceOk => (Res::Ok(Resp { serial: 781_000, req: req.id, key: req.key }), 0, 1),
                // the backup's own error is of a kind the predicate accepts (0) or refuses (9), by request
                Strat::ServiceFailing => (Res::FallbackFailed(InnerErr { id: 999_000 + req.id, kind: if req.key == 3 { 9 } else { 0 } }), 0, 1),
                Strat::Exception => (Res::Inner(InnerErr { id: e.id + 5_000, kind: e.kind }), 0, 0),
            }
        }
    }
}

/// Requests overlap: the backup service of one request is still pending (or its response
/// future was dropped half-way) while other requests of the same thread go through the layer.
/// Every order of {start next request, poll, drop (at most one), let the backups finish} up to
/// depth 7 is run from scratch on three requests; each request must get what the strategy
/// specifies for *it*, whatever the others are doing.
fn overlap_run(rep: &mut Report) {
    use std::future::Future;
    use std::pin::Pin;
    use std::task::{Context, Poll, Waker};
    #[derive(Default)]
    struct Gate {
        open: Mutex<bool>,
        wakers: Mutex<Vec<Waker>>,
    }
    struct Wait(Arc<Gate>);
    impl Future for Wait {
        type Output = ();
        fn poll(self: Pin<&mut Self>, cx: &mut Context<'_>) -> Poll<()> {
            if *self.0.open.lock().unwrap() {
                Poll::Ready(())
            } else {
                self.0.wakers.lock().unwrap().push(cx.waker().clone());
                Poll::Pending
            }
        }
    }
    #[derive(Clone, Copy, Debug, PartialEq)]
    enum Act {
        Start,
        Poll(usize),
        Drop(usize),
        Open,
    }
    type Fut = Pin<Box<dyn Future<Output = Result<Resp, FallbackError<InnerErr>>>>>;
    let mut runs = 0u64;
    let mut reported = false;
    for failing in [false, true] {
        for script in [[Out::Err(0), Out::Err(0), Out::Err(0)], [Out::Err(0), Out::Ok, Out::Err(0)]] {
            // DFS over action sequences, each executed from scratch
            let mut stack: Vec<Vec<Act>> = vec![vec![]];
            while let Some(hist) = stack.pop() {
                let w = World::new(0, 10, Mode::Script, 1);
                {
                    let mut g = w.inner.lock().unwrap();
                    for o in &script {
                        g.script.push_back(Plan::now(*o));
                    }
                }
                let gate = Arc::new(Gate::default());
                let g2 = gate.clone();
                let layer = FallbackLayer::<Req, Resp, InnerErr>::builder()
                    .service(move |r: Req| {
                        let g = g2.clone();
                        async move {
                            Wait(g).await;
                            if failing {
                                Err(InnerErr { id: 999_000 + r.id, kind: 0 })
                            } else {
                                Ok(Resp { serial: 781_000, req: r.id, key: r.key })
                            }
                        }
                    })
                    .build();
                let mut svc = layer.layer(GatedInner::new(w.inner.clone()));
                let mut clone = svc.clone();
                let mut futs: Vec<Option<Fut>> = vec![];
                let mut results: Vec<Option<Result<Resp, FallbackError<InnerErr>>>> = vec![];
                let mut dropped = vec![];
                let poll_once = |w: &World, f: &mut Fut| -> Option<Result<Resp, FallbackError<InnerErr>>> {
                    w.block_on(futures::future::poll_fn(|cx| match f.as_mut().poll(cx) {
                        Poll::Ready(r) => Poll::Ready(Some(r)),
                        Poll::Pending => Poll::Ready(None),
                    }))
                };
                let mut apply = |a: Act, futs: &mut Vec<Option<Fut>>, results: &mut Vec<Option<Result<Resp, FallbackError<InnerErr>>>>, dropped: &mut Vec<usize>| match a {
                    Act::Start => {
                        let i = futs.len();
                        let h = if i % 2 == 1 { &mut clone } else { &mut svc };
                        w.block_on(async {
                            let _ = futures::future::poll_fn(|cx| Service::<Req>::poll_ready(h, cx)).await;
                        });
                        let mut f: Fut = Box::pin(h.call(Req::new(100 + i as u32, 3)));
                        let r = poll_once(&w, &mut f);
                        results.push(r);
                        futs.push(Some(f));
                    }
                    Act::Poll(i) => {
                        if let Some(f) = futs[i].as_mut() {
                            if results[i].is_none() {
                                results[i] = poll_once(&w, f);
                            }
                        }
                    }
                    Act::Drop(i) => {
                        futs[i] = None;
                        dropped.push(i);
                    }
                    Act::Open => {
                        *gate.open.lock().unwrap() = true;
                        for wk in gate.wakers.lock().unwrap().drain(..) {
                            wk.wake();
                        }
                    }
                };
                for a in &hist {
                    apply(*a, &mut futs, &mut results, &mut dropped);
                }
                // successors (before the epilogue changes anything)
                if hist.len() < 7 {
                    let live: Vec<usize> = (0..futs.len()).filter(|&i| futs[i].is_some() && results[i].is_none()).collect();
                    if futs.len() < 3 {
                        stack.push([hist.clone(), vec![Act::Start]].concat());
                    }
                    for &i in &live {
                        stack.push([hist.clone(), vec![Act::Poll(i)]].concat());
                        if dropped.is_empty() {
                            stack.push([hist.clone(), vec![Act::Drop(i)]].concat());
                        }
                    }
                    if !*gate.open.lock().unwrap() {
                        stack.push([hist.clone(), vec![Act::Open]].concat());
                    }
                }
                // epilogue: the backups may finish, every live request is polled to its end
                apply(Act::Open, &mut futs, &mut results, &mut dropped);
                for i in 0..futs.len() {
                    for _ in 0..3 {
                        apply(Act::Poll(i), &mut futs, &mut results, &mut dropped);
                    }
                }
                runs += 1;
                for i in 0..futs.len() {
                    if dropped.contains(&i) {
                        continue;
                    }
                    let id = 100 + i as u32;
                    let inner_ok = w.inner.lock().unwrap().calls.iter().find(|c| c.req.id == id).and_then(|c| match &c.status {
                        trv_core::inner::CallStatus::Ok(r) => Some(r.clone()),
                        _ => None,
                    });
                    let want = match inner_ok {
                        Some(r) => Res::Ok(r),
                        None if failing => Res::FallbackFailed(InnerErr { id: 999_000 + id, kind: 0 }),
                        None => Res::Ok(Resp { serial: 781_000, req: id, key: 3 }),
                    };
                    let got = match &results[i] {
                        Some(Ok(r)) => Some(Res::Ok(r.clone())),
                        Some(Err(FallbackError::Inner(e))) => Some(Res::Inner(e.clone())),
                        Some(Err(FallbackError::FallbackFailed(e))) => Some(Res::FallbackFailed(e.clone())),
                        None => None,
                    };
                    if got.as_ref() != Some(&want) && !reported {
                        reported = true;
                        rep.violations.push(Violation {
                            property: "C17".into(),
                            kind: "request_affected_by_another_request".into(),
                            site: if failing { "ServiceFailing".into() } else { "ServiceOk".into() },
                            config: format!("overlapping requests, backup service {} inner outcomes {script:?}", if failing { "failing" } else { "ok" }),
                            history: json!(format!("{hist:?}")),
                            detail: format!("request {i}: expected {want:?}, got {got:?} (None = never resolves)"),
                            log: vec![],
                        });
                    }
                }
            }
        }
    }
    rep.evaluations += runs;
    rep.witness("overlapping_requests_with_a_pending_backup", runs);
    rep.extra.insert("overlap_runs".into(), json!({"action_sequences": runs, "depth": 7, "requests": 3}));
}

fn main() {
    trv_core::startup();
    let cli = trv_core::parse_cli();
    if cli.property != "C17" {
        eprintln!("p-fallback serves C17");
        std::process::exit(2);
    }
    if let Some(p) = cli.replay.clone() {
        let v = trv_core::load_replay(&p);
        if let Some(ch) = v["history"]["thread_schedule"].as_array() {
            let choices: Vec<usize> = ch.iter().filter_map(|x| x.as_u64().map(|u| u as usize)).collect();
            match threads::replay(v["config"].as_str().unwrap_or(""), &choices, v["kind"].as_str().unwrap_or("")) {
                Some(true) => {
                    println!("VIOLATION property=C17 replay={p}");
                    std::process::exit(1);
                }
                Some(false) => {
                    println!("replay: the recorded violation does not occur on the current tree");
                    std::process::exit(0);
                }
                None => {
                    eprintln!("MACHINERY no thread configuration with that label");
                    std::process::exit(2);
                }
            }
        }
    }
    let replaying = cli.replay.clone().map(|p| trv_core::load_replay(&p));
    let mut rep = Report::new("C17", cli.tier, "exploration");
    rep.rule = "full grid: 7 strategies (value, value function, from error, from request and error, backup service ok / failing, error transformation) x 4 predicates (none, accept, reject, by error kind) x both builder call orders x every sequence of 3 (thorough: 5) inner outcomes over {ok, error kind 0, error kind 1} on one service instance and a clone, with distinguishable requests; outer results, inner and backup call logs compared with a pure reference function. distinct = distinct (strategy, predicate, inner outcome, observed result class)".into();
    let mut reported = std::collections::BTreeSet::new();
    let outs = [Out::Ok, Out::Err(0), Out::Err(1)];
    for s in STRATS {
        for p in PREDS {
            let len = cli.tier.pick(3u32, 5);
            let total = 3usize.pow(len);
            for code in 0..4 * total {
                // every grid point with and without an event listener on the layer
                let with_listener = code >= 2 * total;
                let code = code % (2 * total);
                let predicate_first = code >= total;
                let code = code % total;
                let script: Vec<Out> = (0..len).map(|i| outs[(code / 3usize.pow(i)) % 3]).collect();
                let w = World::new(0, 10, Mode::Script, 1);
                {
                    let mut g = w.inner.lock().unwrap();
                    for o in &script {
                        g.script.push_back(Plan::now(*o));
                    }
                }
                let value_fn_calls = Arc::new(AtomicU32::new(0));
                let pred_evals = Arc::new(AtomicU32::new(0));
                let mut errs_seen = 0u32;
                let backup_log: Arc<Mutex<Vec<Req>>> = Arc::new(Mutex::new(vec![]));
                let mut b = FallbackLayer::<Req, Resp, InnerErr>::builder();
                // the builder calls are issued in both orders: predicate before / after the strategy
                if predicate_first {
                    b = match p {
                    Pred::None => b,
                    Pred::Accept => b.handle(|_e: &InnerErr| true),
                    Pred::Reject => b.handle(|_e: &InnerErr| false),
                    Pred::ByKind => b.handle(|e: &InnerErr| e.kind == 0),
                    Pred::Alternating => {
                        let c = pred_evals.clone();
                        b.handle(move |_e: &InnerErr| c.fetch_add(1, Ordering::SeqCst) % 2 == 0)
                    }
                    };
                }
                // every third grid point sets another strategy first (a shared preset refined per
                // call site, a default overridden conditionally): the last setter wins
                if code % 3 == 1 {
                    b = if matches!(s, Strat::Value) { b.exception(|e: InnerErr| InnerErr { id: e.id + 66_000, kind: 8 }) } else { b.value(Resp { serial: 666_000, req: 0, key: 0 }) };
                }
                b = match s {
                    Strat::Value => b.value(Resp { serial: 777_000, req: 0, key: 0 }),
                    Strat::ValueFn => {
                        let c = value_fn_calls.clone();
                        b.value_fn(move || Resp { serial: 778_000 + c.fetch_add(1, Ordering::SeqCst), req: 0, key: 0 })
                    }
                    Strat::FromError => b.from_error(|e: &InnerErr| Resp { serial: 779_000 + e.id, req: 0, key: e.kind }),
                    Strat::FromRequestError => b.from_request_error(|r: &Req, e: &InnerErr| Resp { serial: 780_000 + e.id, req: r.id, key: r.key }),
                    Strat::ServiceOk => {
                        let l = backup_log.clone();
                        b.service(move |r: Req| {
                            l.lock().unwrap().push(r.clone());
                            async move { Ok::<_, InnerErr>(Resp { serial: 781_000, req: r.id, key: r.key }) }
                        })
                    }
                    Strat::ServiceFailing => {
                        let l = backup_log.clone();
                        b.service(move |r: Req| {
                            l.lock().unwrap().push(r.clone());
                            async move { Err::<Resp, _>(InnerErr { id: 999_000 + r.id, kind: if r.key == 3 { 9 } else { 0 } }) }
                        })
                    }
                    Strat::Exception => b.exception(|e: InnerErr| InnerErr { id: e.id + 5_000, kind: e.kind }),
                };
                if !predicate_first {
                    b = match p {
                    Pred::None => b,
                    Pred::Accept => b.handle(|_e: &InnerErr| true),
                    Pred::Reject => b.handle(|_e: &InnerErr| false),
                    Pred::ByKind => b.handle(|e: &InnerErr| e.kind == 0),
                    Pred::Alternating => {
                        let c = pred_evals.clone();
                        b.handle(move |_e: &InnerErr| c.fetch_add(1, Ordering::SeqCst) % 2 == 0)
                    }
                    };
                }
                let events = Arc::new(AtomicU32::new(0));
                if with_listener {
                    let ev = events.clone();
                    b = b.on_event(move |_e| {
                        ev.fetch_add(1, Ordering::SeqCst);
                    });
                }
                let mut layer = Some(b.build());
                let mut svc = Some(if predicate_first { layer.as_ref().unwrap().clone().layer(GatedInner::new(w.inner.clone())) } else { layer.as_ref().unwrap().layer(GatedInner::new(w.inner.clone())) });
                let mut clone = Some(svc.as_ref().unwrap().clone());
                let mut vf_expected = 0u32;
                let mut backup_expected: Vec<Req> = vec![];
                for (i, _o) in script.iter().enumerate() {
                    let req = Req::new(100 + i as u32, (i % 2) as u8 + 3);
                    let before = w.inner.lock().unwrap().calls.len();
                    // the last request of every second grid point is still in flight when the
                    // layer and every service handle are dropped (oneshot on a clone, a
                    // per-connection service that goes away)
                    let orphaned = i + 1 == script.len() && predicate_first;
                    let got = {
                        let h = if i % 2 == 1 { clone.as_mut().unwrap() } else { svc.as_mut().unwrap() };
                        w.block_on(async {
                            let _ = futures::future::poll_fn(|cx| Service::<Req>::poll_ready(h, cx)).await;
                        });
                        let fut = h.call(req.clone());
                        if orphaned {
                            svc = None;
                            clone = None;
                            drop(layer.take());
                        }
                        w.block_on(fut)
                    };
                    rep.evaluations += 1;
                    let g = w.inner.lock().unwrap();
                    let after = g.calls.len();
                    let mut viols: Vec<(String, String)> = vec![];
                    if after != before + 1 {
                        viols.push(("inner_call_count".into(), format!("{} inner calls for one request", after - before)));
                    } else if g.calls[before].req != req {
                        viols.push(("request_changed".into(), format!("inner saw {:?} instead of {:?}", g.calls[before].req, req)));
                    }
                    let inner_res: Result<Resp, InnerErr> = match &g.calls[before].status {
                        trv_core::inner::CallStatus::Ok(r) => Ok(r.clone()),
                        trv_core::inner::CallStatus::Err(e) => Err(e.clone()),
                        other => panic!("inner call ended {other:?}"),
                    };
                    drop(g);
                    let (want, vf, bk) = reference(s, p, &req, &inner_res, vf_expected, errs_seen);
                    if inner_res.is_err() {
                        errs_seen += 1;
                    }
                    vf_expected += vf;
                    if bk == 1 {
                        backup_expected.push(req.clone());
                    }
                    // the error the layer produces is a value like any other: a copy of it (the
                    // coalesce layer hands copies to its waiters) says the same thing
                    if let Err(e) = &got {
                        let copy = e.clone();
                        let same = match (e, &copy) {
                            (FallbackError::Inner(a), FallbackError::Inner(b)) => a == b,
                            (FallbackError::FallbackFailed(a), FallbackError::FallbackFailed(b)) => a == b,
                            _ => false,
                        };
                        if !same || format!("{e:?}") != format!("{copy:?}") || e.to_string() != copy.to_string() {
                            viols.push(("error_changes_when_cloned".into(), format!("the layer returned {e:?}; a clone of that error is {copy:?}")));
                        }
                    }
                    let got_n = match got {
                        Ok(r) => Res::Ok(r),
                        Err(FallbackError::Inner(e)) => Res::Inner(e),
                        Err(FallbackError::FallbackFailed(e)) => Res::FallbackFailed(e),
                    };
                    if got_n != want {
                        let kind = match (&inner_res, &got_n) {
                            (Ok(_), _) => "success_replaced",
                            (Err(e), Res::Inner(e2)) if e == e2 => "error_not_handled",
                            (Err(e), _) if !handled(p, e, errs_seen.saturating_sub(1)) => "refused_error_handled",
                            _ => "wrong_fallback_result",
                        };
                        viols.push((kind.into(), format!("inner outcome {:?}, expected {:?}, got {:?}", inner_res, want, got_n)));
                    }
                    if value_fn_calls.load(Ordering::SeqCst) != vf_expected {
                        viols.push(("value_fn_call_count".into(), format!("value function called {} times, expected {}", value_fn_calls.load(Ordering::SeqCst), vf_expected)));
                    }
                    if *backup_log.lock().unwrap() != backup_expected {
                        viols.push(("backup_call_log".into(), format!("backup service saw {:?}, expected {:?}", backup_log.lock().unwrap(), backup_expected)));
                    }
                    let class = match &got_n {
                        Res::Ok(r) if inner_res.as_ref().ok() == Some(r) => "pass_through_ok",
                        Res::Ok(_) => "fallback_value",
                        Res::Inner(e) if inner_res.as_ref().err() == Some(e) => "pass_through_err",
                        Res::Inner(_) => "transformed_err",
                        Res::FallbackFailed(_) => "fallback_failed",
                    };
                    rep.outcomes.insert(class.to_string());
                    rep.witness(class, 1);
                    rep.distinct.insert(format!("{s:?}|{p:?}|{:?}|{class}", inner_res.as_ref().map(|_| "ok").map_err(|e| e.kind)));
                    for (kind, detail) in viols {
                        if reported.insert(kind.clone()) {
                            rep.violations.push(Violation {
                                property: "C17".into(),
                                kind,
                                site: format!("{s:?}"),
                                config: format!("strategy={s:?} predicate={p:?} builder_order={}", if predicate_first { "predicate_first" } else { "strategy_first" }),
                                history: json!({"script": format!("{script:?}"), "request_index": i}),
                                detail,
                                log: vec![],
                            });
                        }
                    }
                }
                if code == 13 {
                    rep.sample(json!({"strategy": format!("{s:?}"), "predicate": format!("{p:?}"), "inner_outcomes": format!("{script:?}")}));
                }
            }
        }
    }
    if cli.replay.is_none() || replaying.as_ref().map_or(false, |v| v["kind"] == "request_affected_by_another_request") {
        overlap_run(&mut rep);
    }
    if cli.replay.is_none() {
        threads::run(cli.tier, &mut rep);
    }
    for w in ["pass_through_ok", "fallback_value", "pass_through_err", "transformed_err", "fallback_failed"] {
        rep.require_witness(w);
    }
    rep.bounds = json!({"strategies": 7, "predicates": 4, "outcome_sequences": 27, "requests_per_sequence": 3});
    if let (Some(v), Some(p)) = (replaying, cli.replay) {
        let kind = v["kind"].as_str().unwrap_or("");
        if rep.violations.iter().any(|x| x.kind == kind) {
            println!("VIOLATION property=C17 replay={p}");
            std::process::exit(1);
        }
        println!("replay: the recorded violation does not occur on the current tree");
        std::process::exit(0);
    }
    trv_core::finish(rep);
}
